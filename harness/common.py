"""Shared machinery: TLC runner, fork pool, evidence, findings, verdict printing."""
import hashlib
import json
import os
import pickle
import re
import select
import shutil
import signal
import subprocess
import sys
import tempfile
import time
import traceback

VERIF = os.path.dirname(os.path.dirname(os.path.abspath(__file__)))
REPO = "/repo"
REPO_SRC = os.path.join(REPO, "src")
SPECS = os.path.join(VERIF, "specs")
EVIDENCE = os.path.join(VERIF, "evidence")
REPLAYS = os.path.join(VERIF, "replays")
FINDINGS = os.path.join(VERIF, "known_findings.json")
PY = "/venv/bin/python"
NPROC = min(16, os.cpu_count() or 4)


def scratch_root():
    base = "/dev/shm" if os.path.isdir("/dev/shm") and os.access("/dev/shm", os.W_OK) else tempfile.gettempdir()
    return base


class Scratch:
    """Per-run scratch directory, removed on exit."""

    def __init__(self, tag):
        self.path = tempfile.mkdtemp(prefix="cv_%s_" % tag, dir=scratch_root())

    def __enter__(self):
        return self.path

    def __exit__(self, *a):
        shutil.rmtree(self.path, ignore_errors=True)


def seed_from_env():
    try:
        return int(os.environ.get("VERIF_SEED", "0"))
    except ValueError:
        return 0


# --------------------------------------------------------------------------- fork pool


class MachineryError(Exception):
    pass


def _die_with_parent():
    """PR_SET_PDEATHSIG(SIGKILL): a worker (and, transitively, its own workers) never outlives its parent."""
    try:
        import ctypes
        ctypes.CDLL(None, use_errno=True).prctl(1, int(signal.SIGKILL), 0, 0, 0)
    except Exception:
        pass


def fork_map(fn, items, nproc=NPROC, timeout=900.0, on_result=None):
    """Run fn(item) for every item, each in a freshly forked child (full isolation of
    monkey-patches, signal handlers, module state). Returns list of results in order.
    A child that raises returns {"_error": traceback}; one that times out {"_timeout": True}."""
    items = list(items)
    results = [None] * len(items)
    pending = {}  # fd -> (idx, pid, start, buf)
    nxt = 0
    sys.stdout.flush()
    sys.stderr.flush()

    def launch(idx):
        r, w = os.pipe()
        pid = os.fork()
        if pid == 0:
            code = 0
            try:
                _die_with_parent()
                os.close(r)
                # own process group so that stray kills stay local
                try:
                    res = fn(items[idx])
                except BaseException:  # noqa
                    res = {"_error": traceback.format_exc()}
                data = pickle.dumps(res)
                with os.fdopen(w, "wb") as f:
                    f.write(data)
            except BaseException:  # noqa
                code = 3
            finally:
                os._exit(code)
        os.close(w)
        pending[r] = [idx, pid, time.time(), []]

    while nxt < len(items) or pending:
        while nxt < len(items) and len(pending) < nproc:
            launch(nxt)
            nxt += 1
        rl, _, _ = select.select(list(pending), [], [], 0.25)
        now = time.time()
        for fd in rl:
            ent = pending[fd]
            chunk = os.read(fd, 1 << 20)
            if chunk:
                ent[3].append(chunk)
                continue
            os.close(fd)
            del pending[fd]
            try:
                os.waitpid(ent[1], 0)
            except ChildProcessError:
                pass
            data = b"".join(ent[3])
            try:
                res = pickle.loads(data) if data else {"_error": "child died without result"}
            except Exception:
                res = {"_error": "bad result pickle"}
            results[ent[0]] = res
            if on_result:
                on_result(ent[0], res)
        for fd in list(pending):
            ent = pending[fd]
            if now - ent[2] > timeout:
                try:
                    os.kill(ent[1], signal.SIGKILL)
                except ProcessLookupError:
                    pass
                try:
                    os.waitpid(ent[1], 0)
                except ChildProcessError:
                    pass
                os.close(fd)
                del pending[fd]
                results[ent[0]] = {"_timeout": True}
                if on_result:
                    on_result(ent[0], results[ent[0]])
    return results


# --------------------------------------------------------------------------- TLC

_TLC_JAR = "/opt/veriftools/tla/tla2tools.jar"


def _tlc_cmd():
    return ["tlc"]


class TlcResult:
    def __init__(self):
        self.ok = False
        self.generated = 0
        self.distinct = 0
        self.depth = 0
        self.violated = []  # invariant / property names
        self.deadlock = False
        self.output = ""
        self.wall = 0.0
        self.timed_out = False
        self.printed = []  # PrintT lines decoded (strings)
        self.coverage = {}
        self.error = None


def run_tlc(module, cfg=None, workers="auto", timeout=600, env=None, simulate=None, depth=None,
            continue_=False, coverage=False, deadlock=None, seed=None, extra=None, cwd=SPECS, dfs=False):
    """Run TLC on specs/<module>.tla with <cfg>; parse the summary."""
    res = TlcResult()
    with Scratch("tlc") as meta:
        cmd = _tlc_cmd() + ["-metadir", os.path.join(meta, "m"), "-noGenerateSpecTE"]
        if workers == "auto":
            workers = str(NPROC)
        cmd += ["-workers", str(workers)]
        if cfg:
            cmd += ["-config", cfg]
        if simulate:
            cmd += ["-simulate", simulate]
        if depth:
            cmd += ["-depth", str(depth)]
        if continue_:
            cmd += ["-continue"]
        if coverage:
            cmd += ["-coverage", "1"]
        if deadlock is False:
            cmd += ["-deadlock"]
        if seed is not None:
            cmd += ["-seed", str(seed)]
        if extra:
            cmd += list(extra)
        cmd += [module]
        e = dict(os.environ)
        jopts = e.get("JAVA_TOOL_OPTIONS", "")
        if dfs:
            jopts += " -Dtlc2.tool.queue.IStateQueue=StateDeque"
        jopts += " -XX:+UseParallelGC"
        e["JAVA_TOOL_OPTIONS"] = jopts.strip()
        if env:
            e.update(env)
        t0 = time.time()
        try:
            p = subprocess.run(cmd, cwd=cwd, env=e, capture_output=True, text=True, timeout=timeout)
            out = p.stdout + p.stderr
            rc = p.returncode
        except subprocess.TimeoutExpired as ex:
            out = (ex.stdout.decode() if isinstance(ex.stdout, bytes) else (ex.stdout or ""))
            rc = -9
            res.timed_out = True
            subprocess.run(["pkill", "-f", os.path.join(meta, "m")], check=False)
        res.wall = time.time() - t0
    res.output = out
    m = re.findall(r"(\d+) states generated, (\d+) distinct states found", out)
    if m:
        res.generated, res.distinct = int(m[-1][0]), int(m[-1][1])
    m = re.search(r"depth of the complete state graph search is (\d+)", out)
    if m:
        res.depth = int(m.group(1))
    res.violated = re.findall(r"Error: Invariant (\S+) is violated", out)
    res.violated += re.findall(r"Error: Action property (\S+) is violated", out)
    if "Temporal properties were violated" in out:
        res.violated.append("<temporal>")
    if re.search(r"Error: Deadlock reached", out):
        res.deadlock = True
    for line in out.splitlines():
        line = line.strip()
        if line.startswith('"') and line.endswith('"'):
            try:
                res.printed.append(json.loads(line))
            except Exception:
                pass
    if coverage:
        for mm in re.finditer(r"<(\w+) line \d+, col \d+ to line \d+, col \d+ of module (\w+)>: (\d+):(\d+)", out):
            res.coverage[mm.group(1)] = res.coverage.get(mm.group(1), 0) + int(mm.group(4))
    finished = "Model checking completed" in out or "Finished in" in out or simulate is not None
    hard_err = re.search(r"(Parsing or semantic analysis failed|Error: TLC threw|Error: The .*cfg|TLC encountered|"
                         r"Error: Evaluating|java\.lang\.\w+Error|was not completely specified|"
                         r"Error: In evaluation|Error: Attempted|Error: The spec)", out)
    if hard_err and not res.violated and not res.deadlock:
        res.error = out[-3000:]
    res.ok = finished and not res.violated and not res.deadlock and res.error is None and not res.timed_out
    return res


def tlc_printed_json(res):
    """PrintT(ToJson(x)) lines -> python objects."""
    out = []
    for s in res.printed:
        try:
            out.append(json.loads(s))
        except Exception:
            pass
    return out


# --------------------------------------------------------------------------- findings / verdicts


def load_findings():
    if not os.path.exists(FINDINGS):
        return []
    with open(FINDINGS) as f:
        return json.load(f).get("findings", [])


def match_finding(prop, signature):
    """signature: dict of features of a violation. A finding matches when status == known,
    same property, and every key of finding['match'] equals the violation's feature."""
    for f in load_findings():
        if f.get("property") != prop or f.get("status") != "known":
            continue
        m = f.get("match", {})
        ok = True
        for k, v in m.items():
            sv = signature.get(k)
            if isinstance(v, list):
                if sv not in v:
                    ok = False
            elif sv != v:
                ok = False
        if ok:
            return f
    return None


def scenario_hash(obj):
    return hashlib.sha1(json.dumps(obj, sort_keys=True, default=str).encode()).hexdigest()[:12]


def write_replay(prop, scenario, extra=None):
    os.makedirs(REPLAYS, exist_ok=True)
    body = {"property": prop, "scenario": scenario}
    if extra:
        body.update(extra)
    name = "%s_%s.json" % (prop, scenario_hash(body))
    path = os.path.join(REPLAYS, name)
    with open(path, "w") as f:
        json.dump(body, f, indent=1, sort_keys=True, default=str)
    return path


class Report:
    """Collects violations / known findings / drift for one check run and writes evidence."""

    def __init__(self, prop, tier, level):
        self.prop = prop
        self.tier = tier
        self.level = level
        self.seed = seed_from_env()
        self.t0 = time.time()
        self.violations = []  # (signature, replay_path, text)
        self.known = {}  # finding id -> count
        self.drift = []
        self.cov = {"samples": []}
        self.assumptions = []
        self.machinery_errors = []
        self._seen_sigs = set()

    def violation(self, signature, scenario, text, extra=None):
        f = match_finding(self.prop, signature)
        if f is not None:
            key = f.get("id") or f.get("what")
            if key not in self.known:
                self.known[key] = [f, 0]
            self.known[key][1] += 1
            return False
        sk = json.dumps(signature, sort_keys=True, default=str)
        if sk in self._seen_sigs and len(self.violations) >= 5:
            self.violations.append((signature, None, text))
            return True
        self._seen_sigs.add(sk)
        path = write_replay(self.prop, scenario, dict(signature=signature, text=text, **(extra or {})))
        self.violations.append((signature, path, text))
        return True

    def machinery(self, text):
        self.machinery_errors.append(text)

    def add_sample(self, s, limit=6):
        if len(self.cov["samples"]) < limit:
            self.cov["samples"].append(s)

    def finish(self):
        wall = time.time() - self.t0
        cov = dict(self.cov)
        cov["drift"] = len(self.drift)
        if self.drift:
            cov["drift_samples"] = self.drift[:3]
        cov["known_findings_seen"] = {k: v[1] for k, v in self.known.items()}
        ev = {
            "property_id": self.prop,
            "tier": self.tier,
            "seed": self.seed,
            "level": self.level,
            "coverage": cov,
            "assumptions": self.assumptions,
            "wall_s": round(wall, 2),
            "violations": len(self.violations),
        }
        # checks that go beyond the listed properties (X..) keep their evidence apart from the per-property files
        evdir = EVIDENCE if not self.prop.startswith("X") else os.path.join(VERIF, "extras")
        if os.environ.get("VERIF_SUBJECT_SRC"):
            # development runs against a scratch copy of the sources (seeded changes, refactorings) must not overwrite the
            # evidence of the checks of /repo itself
            evdir = os.path.join(scratch_root(), "evidence_of_dev_runs")
        os.makedirs(evdir, exist_ok=True)
        with open(os.path.join(evdir, "%s.json" % self.prop), "w") as f:
            json.dump(ev, f, indent=1, sort_keys=True, default=str)
        for k, (f, n) in self.known.items():
            print("KNOWN-FINDING: property=%s %s (seen %d times)" % (self.prop, f.get("what"), n))
        for d in self.drift[:5]:
            print("MODEL-DRIFT: property=%s %s" % (self.prop, d))
        if self.machinery_errors:
            for m in self.machinery_errors[:5]:
                print("MACHINERY-ERROR: %s" % m, file=sys.stderr)
            return 2
        if self.violations:
            shown = 0
            for sig, path, text in self.violations:
                if path is None:
                    continue
                print("VIOLATION property=%s replay=%s" % (self.prop, path))
                print("  clause=%s %s" % (sig.get("clause"), text))
                shown += 1
                if shown >= 10:
                    break
            print("%s: %d violating executions" % (self.prop, len(self.violations)))
            return 1
        print("%s: OK tier=%s wall=%.1fs %s" % (self.prop, self.tier, wall, json.dumps(
            {k: v for k, v in cov.items() if isinstance(v, (int, float, bool))}, sort_keys=True)))
        return 0
