"""Scenario -> scratch Conductor project on disk."""
import json
import os
import sqlite3
import subprocess

CREATE_TABLE = """CREATE TABLE version_index (
    task_identifier TEXT NOT NULL, timestamp INTEGER NOT NULL, git_commit_hash TEXT,
    has_uncommitted_changes INTEGER NOT NULL, PRIMARY KEY (task_identifier, timestamp))"""


def split_id(ident):
    """'//a/b:name' -> ('a/b', 'name')"""
    assert ident.startswith("//"), ident
    path, name = ident[2:].split(":")
    return path.strip("/"), name


def out_dir_rel(ident, ts=None):
    pkg, name = split_id(ident)
    d = name + ".task" + ("" if ts is None else ".%d" % ts)
    return os.path.join(pkg, d) if pkg else d


def pyrepr(v):
    return repr(v)


def task_source(t):
    kind = t["kind"]
    parts = ["name=%r" % t["name"]]
    if kind in ("run_experiment", "run_command"):
        parts.append("run=%r" % t.get("run", "true"))
        if t.get("par"):
            parts.append("parallelizable=True")
        if t.get("args"):
            parts.append("args=%s" % pyrepr(t["args"]))
        if t.get("options"):
            parts.append("options=%s" % pyrepr(t["options"]))
    if t.get("deps") or t.get("force_deps"):
        parts.append("deps=%s" % pyrepr(list(t.get("deps", []))))
    return "%s(%s)\n" % (kind, ", ".join(parts))


def write_project(root, project, git=None):
    """project: {"tasks":[{"pkg","name","kind","deps",...}], "index":[{"task","ts","commit","dirty"}],
    "dirs":[{"task","ts","files":{rel:content}}], "raw_cond": {pkg: source}, "config": str}"""
    os.makedirs(root, exist_ok=True)
    with open(os.path.join(root, "cond_config.toml"), "w") as f:
        f.write(project.get("config", ""))
    by_pkg = {}
    for t in project.get("tasks", []):
        by_pkg.setdefault(t.get("pkg", ""), []).append(t)
    for pkg, ts in by_pkg.items():
        d = os.path.join(root, pkg)
        os.makedirs(d, exist_ok=True)
        with open(os.path.join(d, "COND"), "w") as f:
            f.write((project.get("cond_prelude") or {}).get(pkg, ""))     # e.g. include() directives
            for t in ts:
                f.write(task_source(t))
    for pkg, src in project.get("raw_cond", {}).items():
        d = os.path.join(root, pkg)
        os.makedirs(d, exist_ok=True)
        with open(os.path.join(d, "COND"), "w") as f:
            f.write(src)
    for rel, src in project.get("files", {}).items():
        p = os.path.join(root, rel)
        os.makedirs(os.path.dirname(p), exist_ok=True)
        with open(p, "w") as f:
            f.write(src)
    rows = project.get("index")
    if rows is not None:
        write_index(root, rows)
    for d in project.get("dirs", []):
        p = os.path.join(root, "cond-out", out_dir_rel(d["task"], d.get("ts")))
        os.makedirs(p, exist_ok=True)
        for rel, content in d.get("files", {}).items():
            fp = os.path.join(p, rel)
            os.makedirs(os.path.dirname(fp), exist_ok=True)
            with open(fp, "w") as f:
                f.write(content)
    return root


def write_index(root, rows):
    out = os.path.join(root, "cond-out")
    os.makedirs(out, exist_ok=True)
    path = os.path.join(out, "version_index.sqlite")
    if os.path.exists(path):
        os.unlink(path)
    conn = sqlite3.connect(path)
    conn.execute("PRAGMA user_version = 2")
    conn.execute(CREATE_TABLE)
    for r in rows:
        conn.execute("INSERT INTO version_index VALUES (?,?,?,?)",
                     (r["task"], r["ts"], r.get("commit"), 1 if r.get("dirty") else 0))
    conn.commit()
    conn.close()


def read_index(root):
    path = os.path.join(root, "cond-out", "version_index.sqlite")
    if not os.path.exists(path):
        return None
    conn = sqlite3.connect("file:%s?mode=ro" % path, uri=True)
    try:
        rows = conn.execute("SELECT task_identifier, timestamp, git_commit_hash, has_uncommitted_changes "
                            "FROM version_index ORDER BY task_identifier, timestamp").fetchall()
    except sqlite3.Error:
        # a format-1 index (v0.4.0 and older): no dirty flag, the commit column is NOT NULL ('' when there was none)
        try:
            rows = [(r[0], r[1], r[2] or None, 0) for r in conn.execute(
                "SELECT task_identifier, timestamp, git_commit FROM version_index ORDER BY task_identifier, timestamp")]
        except sqlite3.Error:
            rows = None
    finally:
        conn.close()
    if rows is None:
        return None
    return [{"task": r[0], "ts": r[1], "commit": r[2], "dirty": bool(r[3])} for r in rows]


def downgrade_index(root):
    """Rewrite the project's version index in format 1 (as written by Conductor <= 0.4.0): same versions, commit '' when unknown."""
    path = os.path.join(root, "cond-out", "version_index.sqlite")
    rows = read_index(root) or []
    os.makedirs(os.path.dirname(path), exist_ok=True)
    if os.path.exists(path):
        os.unlink(path)
    conn = sqlite3.connect(path)
    conn.execute("PRAGMA user_version = 1")
    conn.execute("CREATE TABLE version_index (task_identifier TEXT NOT NULL, timestamp INTEGER NOT NULL, git_commit TEXT NOT NULL, "
                 "PRIMARY KEY (task_identifier, timestamp))")
    for r in rows:
        conn.execute("INSERT INTO version_index VALUES (?,?,?)", (r["task"], r["ts"], r["commit"] or ""))
    conn.commit()
    conn.close()


GIT_ENV = {
    "GIT_AUTHOR_NAME": "v", "GIT_AUTHOR_EMAIL": "v@v", "GIT_COMMITTER_NAME": "v", "GIT_COMMITTER_EMAIL": "v@v",
    "GIT_CONFIG_NOSYSTEM": "1", "HOME": "/nonexistent", "GIT_AUTHOR_DATE": "2020-01-01T00:00:00Z",
    "GIT_COMMITTER_DATE": "2020-01-01T00:00:00Z",
}


def git(root, *args, check=True):
    env = dict(os.environ)
    env.update(GIT_ENV)
    p = subprocess.run(["git", "-c", "init.defaultBranch=main", "-c", "advice.detachedHead=false",
                        "-c", "gc.auto=0", *args], cwd=root, env=env,
                       capture_output=True, text=True)
    if check and p.returncode != 0:
        raise RuntimeError("git %s failed: %s" % (args, p.stderr))
    return p.stdout.strip()
