"""--replay and --selftest for the `cond run` family of checks."""
import copy
import json
import sys

from . import common as C
from . import runcheck as RC
from . import runobs as R


def replay_run(path, clauses, runner=None):
    with open(path) as f:
        body = json.load(f)
    scn = body["scenario"]
    RC.warm()
    with C.Scratch("replay") as gd:
        if scn.get("git"):
            import os
            RC.set_git_template(RC.make_git_template(os.path.join(gd, "tpl")))
        res = (runner or RC.run_batch)([scn])[0]
    if res is None or "_error" in res or "_timeout" in res:
        print("MACHINERY-ERROR: replay failed: %s" % str(res)[:1000], file=sys.stderr)
        return 2
    tr = R.to_obs_trace(0, scn, res)
    verdicts, _ = R.judge([tr])
    for e in tr["events"]:
        print("  ", json.dumps(e))
    print("exit status:", res.get("status"), "stderr:", (res.get("stderr") or "")[-300:].strip())
    bad = sorted(set(verdicts[0]) & set(clauses))
    other = sorted(set(verdicts[0]) - set(clauses))
    print("violated clauses of this property:", bad)
    if other:
        print("(clauses of other properties violated in the same trace: %s)" % other)
    if bad:
        print("VIOLATION property=%s replay=%s" % (body.get("property"), path))
        return 1
    print("replay does not violate the property on the current tree")
    return 0


def mutate_traces(tr):
    """Deliberate corruptions of a recorded trace: each must be rejected by the judge (binding self-test)."""
    out = []
    evs = tr["events"]
    spawns = [i for i, e in enumerate(evs) if e["e"] == "Spawn"]
    exits = [i for i, e in enumerate(evs) if e["e"] == "Exit"]
    if spawns:
        t = copy.deepcopy(tr)
        t["events"].insert(spawns[0] + 1, copy.deepcopy(evs[spawns[0]]))
        out.append(("duplicate-spawn", t, {"AtMostOnce"}))
    if exits and len(spawns) > 1:
        t = copy.deepcopy(tr)
        del t["events"][exits[0]]
        out.append(("drop-first-exit", t, {"StartAfterDepsExit0", "StatusBelongsToTask", "SequentialAlone",
                                           "AtMostJobs", "TerminatesWhenAllExited", "NoOverlapWithDependency"}))
    if exits:
        t = copy.deepcopy(tr)
        t["events"][exits[0]]["st"] = 3
        out.append(("flip-exit-code", t, {"StatusBelongsToTask", "ExitZeroIffAllSucceeded", "StartAfterDepsExit0",
                                          "RowsOnlyForExit0"}))
    ret = [i for i, e in enumerate(evs) if e["e"] == "Return"]
    if ret:
        t = copy.deepcopy(tr)
        t["events"][ret[0]]["exit"] = 1 if evs[ret[0]]["exit"] == 0 else 0
        out.append(("flip-exit-status", t, {"ExitZeroIffAllSucceeded"}))
    return out


def selftest_run(prop, clauses):
    RC.warm()
    g = {"n": 3, "target": 3, "deps": [[], [1], [1, 2]], "kind": ["exp", "cmd", "cmd"], "par": [True, True, True],
         "cachedTs": [0, 0, 0], "stale": [False] * 3, "again": False, "atLeast": False, "now": 1000, "lastTs0": 0}
    scn = RC.scenario_from_graph(g, jobs=2, sched={"mode": "script", "choices": []})
    res = RC.run_batch([scn])[0]
    tr = R.to_obs_trace(0, scn, res)
    muts = mutate_traces(tr)
    batch = [tr] + [dict(m[1], id=i + 1) for i, m in enumerate(muts)]
    verdicts, _ = R.judge(batch)
    ok = True
    if verdicts[0]:
        print("selftest: the unmodified trace is rejected: %s" % verdicts[0])
        ok = False
    for i, (name, _t, expect) in enumerate(muts):
        got = set(verdicts[i + 1])
        hit = got & expect
        print("selftest %-18s rejected=%s clauses=%s" % (name, bool(got), sorted(got)))
        if not hit:
            ok = False
    print("selftest %s: %s" % (prop, "binding demonstrated" if ok else "FAILED"))
    return 0 if ok else 2
