"""C17 - commands behave the same from any directory inside the project.

StoreObs.CwdClauses: for a command c and two working directories with the same root, exit status, effect on cond-out
and reported locations (resolved against the cwd) are equal; NestedClauses: from a nested project the outer one is
untouched.  Every sub-command x flag combination is executed on identical copies of a project (same history, same fake
clock) from {root, package dirs, a directory without COND, cond-out, cond-out/<pkg>, and - in git-managed projects - a
nested git checkout without its own cond_config.toml}; TLC judges each pair.
"""
import json
import os
import random
import re
import shutil
import tempfile

from .. import clirunner as CLI
from .. import common as C
from .. import runcheck as RC
from .. import store as S
from .. import storegen as G

PROP = "C17"
CLAUSES = {"CwdSameExit", "CwdSameEffects", "CwdSameLocations", "NearestRootWins"}
# the last one is an unrecorded (garbage) output directory: `cond gc` run from there removes its own working directory
CWDS = ["", "pk", "pk/sub", "nocond/deep", "cond-out", "cond-out/pk", "cond", "cond-out/pk/gone.task.77"]


def commands(rng):
    """(label, argv builder taking the absolute scratch dir) list"""
    cmds = [
        ("run", lambda d: ["run", "//:all"]),
        ("run-again-j2", lambda d: ["run", "//:all", "--again", "-j", "2"]),
        ("run-check", lambda d: ["run", "//pk:comb", "--check"]),
        ("run-noprefix", lambda d: ["run", "pk:b"]),
        ("where", lambda d: ["where", "//:a"]),
        ("where-p", lambda d: ["where", "//pk:b", "-p"]),
        ("where-f", lambda d: ["where", "//:cmd", "-f", "-p"]),
        ("where-missing", lambda d: ["where", "//pk/sub:c"]),
        ("where-colon", lambda d: ["where", ":a"]),
        ("where-noslash", lambda d: ["where", "pk:b"]),
        ("archive", lambda d: ["archive"]),
        ("archive-task-latest-o", lambda d: ["archive", "//:all", "--latest", "-o", os.path.join(d, "X.tar.gz")]),
        ("restore", lambda d: ["restore", os.path.join(d, "pre.tar.gz")]),
        ("gc-n", lambda d: ["gc", "-n"]),
        ("gc-v", lambda d: ["gc", "-v"]),
        ("gc", lambda d: ["gc"]),
        ("clean", lambda d: ["clean", "-f"]),
    ]
    return cmds


def locations(label, r, root, cwd):
    """reported locations, resolved against the cwd and expressed relative to the project root"""
    out = []
    here = os.path.join(root, cwd)
    txt = r.get("stdout") or ""
    for line in txt.splitlines():
        m = re.match(r"^(Would delete|Deleting) (.+)$", line)
        if m:
            out.append(m.group(1) + ":" + os.path.relpath(os.path.normpath(os.path.join(here, m.group(2))), root))
        m = re.match(r"^✨ Done! Archive saved as (.+)$", line)
        if m:
            p = os.path.relpath(os.path.normpath(os.path.join(here, m.group(1))), root)
            out.append("archive:" + re.sub(r"\d", "N", p))
    if label.startswith("where") and r.get("status") == 0:
        p = txt.strip().splitlines()[-1] if txt.strip() else ""
        if "-p" in label or label == "where-f":
            out.append("where:" + os.path.normpath(p))            # relative to the project root by definition
        else:
            out.append("where:" + os.path.relpath(os.path.normpath(os.path.join(here, p)), root))
    return sorted(out)


def matrix_worker(scn):
    d = tempfile.mkdtemp(prefix="cvc17_", dir=C.scratch_root())
    try:
        root = os.path.join(d, "p")
        S.build_store_project(root, scn)
        os.makedirs(os.path.join(root, "nocond", "deep"), exist_ok=True)
        os.makedirs(os.path.join(root, "cond"), exist_ok=True)        # its path is a string prefix of <root>/cond-out
        if scn.get("git"):
            # a nested git checkout (vendored clone / submodule) WITHOUT its own cond_config.toml: still the same project
            from .. import project as P
            vend = os.path.join(root, "vendor", "lib")
            os.makedirs(vend)
            with open(os.path.join(vend, "x.txt"), "w") as f:
                f.write("vendored\n")
            P.git(vend, "init", "-q")
            P.git(vend, "add", "-A")
            P.git(vend, "commit", "-q", "-m", "vendored")
        os.makedirs(os.path.join(root, "nested"), exist_ok=True)
        with open(os.path.join(root, "nested", "cond_config.toml"), "w") as f:
            f.write("disable_git = true\n")
        with open(os.path.join(root, "nested", "COND"), "w") as f:
            f.write("run_command(name='all', run='true')\nrun_command(name='a', run='true')\n")
        ctl = os.path.join(root, ".ctl")
        for st in scn["prefix"]:
            if st["cmd"] == "plant":
                S.apply_plant(root, st["entries"])
                continue
            for f in os.listdir(ctl):
                if f.startswith("exit_"):
                    os.unlink(os.path.join(ctl, f))
            for name, code in st.get("exits", {}).items():
                with open(os.path.join(ctl, "exit_" + name), "w") as f:
                    f.write(str(code))
            S.run_command(root, st["argv"], clock=st.get("clock", 100))
        os.makedirs(os.path.join(root, "cond-out", "pk"), exist_ok=True)
        rows = []
        label, argv_fn_idx = scn["cmd"]
        argv_fn = dict(commands(None))[label]
        # nested use: the same commands started from INSIDE a task of this project (a task script that calls `cond where`, a
        # vendored project driven by an outer task) inherit whatever Conductor exports to its tasks
        tenv = S.task_environment(root)
        for k, cwd in enumerate(CWDS + (["vendor/lib"] if scn.get("git") else []) + ["nested"] + (["pk@task", "nested@task"] if tenv else [])):
            inherited = {}
            if cwd.endswith("@task"):
                cwd = cwd[:-5]
                inherited = {kk: vv.replace(root, os.path.join(d, "c%d" % k, "p")) for kk, vv in tenv.items()}
            cd = os.path.join(d, "c%d" % k)
            os.makedirs(cd)
            croot = os.path.join(cd, "p")
            shutil.copytree(root, croot, symlinks=True)
            shutil.copytree(os.path.join(d, "outside"), os.path.join(cd, "outside"))
            if os.path.exists(os.path.join(d, "pre.tar.gz")):
                shutil.copy(os.path.join(d, "pre.tar.gz"), os.path.join(cd, "pre.tar.gz"))
            for f in os.listdir(os.path.join(croot, ".ctl")):
                if f.startswith("exit_"):
                    os.unlink(os.path.join(croot, ".ctl", f))
            before = CLI.project_store(croot)
            r = S.run_command(croot, argv_fn(cd), cwd=cwd, clock=scn.get("clock", 500), env=inherited)
            after = CLI.project_store(croot)
            st = r.get("status")
            rows.append({"cwd": cwd, "exit": st if isinstance(st, int) else 70, "before": before, "after": after,
                         "locs": locations(label, r, croot, cwd), "stderr": (r.get("stderr") or "")[-500:],
                         "stdout": (r.get("stdout") or "")[-300:], "od": S.outside_digest(croot)})
        return {"rows": rows, "label": label}
    finally:
        shutil.rmtree(d, ignore_errors=True)


def scenario(rng, k, label):
    proj = G.base_project(rng, git=(k % 2 == 1))
    prefix = [G.run_step(rng, 100, again=False, p_fail=0.3)]
    if rng.random() < 0.6:
        prefix.append(G.run_step(rng, 150, again=True, p_fail=0.4))
    prefix.append({"cmd": "plant", "entries": [e for e in G.gc_plants(rng) if e.get("kind") != "symlink"] + [
        {"path": "cond-out/pk2/e.task.9", "kind": "dir", "files": {"w": "garbage in a package whose name extends `pk`"}},
        {"path": "cond-out/pk/gone.task.77", "kind": "dir", "files": {"w": "garbage used as a working directory"}},
        {"path": "cond-out/zzz.task.99", "kind": "dir", "files": {"w": "garbage that sorts after everything else"}}] + (
        # leftovers of executions that failed in the very second in which the command under test runs (a retry loop)
        [{"path": "cond-out/a.task.500", "kind": "dir", "files": {"leftover.txt": "failed attempt"}},
         {"path": "cond-out/pk/b.task.500", "kind": "dir", "files": {"leftover.txt": "failed attempt"}},
         {"path": "cond-out/pk/sub/c.task.501", "kind": "dir", "files": {"leftover.txt": "failed attempt"}}] if k % 3 != 0 else [])})
    # COND files that include() shared definitions, with the project-relative ("//...") and the file-relative spelling
    proj["files"] = {"lib/vals.cond": "SHARED = 'x'\n", "pk/local.cond": "LOCAL = 'y'\n"}
    proj["cond_prelude"] = {"": "include('//lib/vals.cond')\n", "pk": "include('//lib/vals.cond')\ninclude('local.cond')\n",
                            "pk/sub": "include('../local.cond')\n"}
    scn = {"project": proj, "prefix": prefix, "cmd": (label, 0), "tag": [k, label]}
    if k % 2 == 1:
        proj["config"] = ""
        scn["git"] = {"commits": 2}
    if label == "restore":
        # an archive of an earlier state that can be restored (different versions than the current ones)
        scn["prefix"] = [G.run_step(rng, 50, again=False, p_fail=0.0), {"cmd": "run", "argv": ["archive", "-o", "../pre.tar.gz"]},
                         {"cmd": "run", "argv": ["clean", "-f"]}] + prefix
    return scn


def main(tier):
    rep = C.Report(PROP, tier, "exploration")
    rng = random.Random(rep.seed + 17)
    RC.warm()
    labels = [c[0] for c in commands(rng)]
    reps = 3 if tier == "quick" else 20
    scns = [scenario(rng, k, lab) for k in range(reps) for lab in labels]
    res = C.fork_map(matrix_worker, scns, timeout=600)
    traces = []
    for i, (scn, r) in enumerate(zip(scns, res)):
        if r is None or "_error" in r or "_timeout" in r:
            rep.machinery("matrix %d failed: %s" % (i, str(r)[:800]))
            continue
        I = S.Interner()
        ref = r["rows"][0]
        steps = []
        for row in r["rows"][1:]:
            a = S.abstract_state(row["after"], I, row["od"])
            b = S.abstract_state(row["before"], I, row["od"])
            if row["cwd"] == "nested":
                steps.append({"cmd": "nested", "exit": row["exit"], "crashed": False, "before": b, "after": a})
                continue
            steps.append({"cmd": "cwdpair", "exit": row["exit"], "crashed": False, "before": b, "after": a,
                          "refExit": ref["exit"], "refAfter": S.abstract_state(ref["after"], I, ref["od"]),
                          "refLocs": [I("l:" + x) for x in ref["locs"]], "locs": [I("l:" + x) for x in row["locs"]]})
        traces.append({"id": i, "graph": {"deps": [], "kind": [], "ident": []}, "steps": steps})
    verdicts, tr = S.judge(traces)
    nontriv = set()
    pairs = 0
    for t in traces:
        i = t["id"]
        rows = res[i]["rows"]
        pairs += len(t["steps"])
        nontriv.add(C.scenario_hash([res[i]["label"], [r["exit"] for r in rows], len(rows[0]["after"]["vdirs"])]))
        for st, c in verdicts[i]:
            if c not in CLAUSES:
                continue
            row = rows[st]
            rep.violation({"clause": c, "command": res[i]["label"], "cwd": row["cwd"],
                           "cwd_is_ancestor_of_cond_out": row["cwd"] == ""},
                          scns[i], "`cond %s` from <root>/%s: exit %s (from the root: %s); locations %s vs %s; stderr: %s" % (
                              res[i]["label"], row["cwd"], row["exit"], rows[0]["exit"], row["locs"][:3], rows[0]["locs"][:3],
                              row["stderr"][-200:].replace("\n", " | ")))
    rep.cov.update({
        "evaluations": pairs, "distinct_nontrivial": len(nontriv) * (len(CWDS)),
        "commands": labels, "cwds": CWDS + ["nested (own cond_config.toml)"],
        "traces_validated_against_impl": len(traces),
        "rule": "each of %d command/flag combinations x %d project states is executed on identical copies from %d working "
                "directories; every (root, other cwd) pair is judged by TLC (StoreObs.CwdClauses); non-trivial = distinct "
                "(command, exit vector, state size)" % (len(labels), reps, len(CWDS) + 1),
        "judge_states": tr.generated if tr else 0,
    })
    if traces:
        rep.add_sample({"command": res[traces[0]["id"]]["label"], "rows": [[r["cwd"], r["exit"], r["locs"]] for r in res[traces[0]["id"]]["rows"]]})
    rep.assumptions += ["path arguments are given absolute; the default archive name (wall clock) is normalised"]
    return rep.finish()


def replay(path):
    with open(path) as f:
        body = json.load(f)
    RC.warm()
    r = C.fork_map(matrix_worker, [body["scenario"]], timeout=600)[0]
    for row in r["rows"]:
        print(row["cwd"] or "<root>", "exit", row["exit"], row["locs"], row["stderr"][-160:].replace("\n", " | "))
    exits = {row["exit"] for row in r["rows"] if row["cwd"] != "nested"}
    if len(exits) > 1:
        print("VIOLATION property=%s replay=%s" % (PROP, path))
        return 1
    return 0
