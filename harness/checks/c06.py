"""C06 - only successful runs become versions; the index never outlives its data.

Store.tla: Crash is enabled at every step of run / restore / archive / gc and IndexNeverOutlivesData is an invariant of
every reachable state.  On the real code, every command of a set of histories (tasks exiting 0 / non-zero / killed,
sequential and -j2, with and without git, restore / archive / gc included) is killed before each of its effectful
system calls; the surviving disk is projected and judged by TLC (IndexImpliesData and the run clauses), and the next
command of the history runs on the survivor.
"""
import random

from .. import common as C
from .. import storegen as G
from . import storefamily as F
from . import storemodel

PROP = "C06"
CLAUSES = {"IndexImpliesData", "RowsOnlyForExit0", "SuccessRecorded", "RowCarriesHeadAndDirty"}


def scenario(rng, k, crash=None, git=False, dirty=False):
    """crash = (step index, effect index) or None (counting pass)."""
    proj = G.base_project(rng, git=git)
    steps = [G.run_step(rng, 100, again=False, p_fail=0.35, jobs=rng.choice([None, 2]))]
    if rng.random() < 0.35:     # (decided by the scenario's own generator: the crash variants are regenerated from the same seed)
        # most experiments of the first invocation FAIL (their directories stay behind, unrecorded); the same command again
        # within the same second plans the failed ones under the very identifiers they had - which must not be used again
        steps[0]["exits"] = {nm: rng.choice([1, 3]) for _p, nm in G.EXPS if nm != "a" and rng.random() < 0.7}
        steps.append(G.run_step(rng, 100 + rng.choice([0, 0, 1]), target="//:all", again=False, p_fail=0.0))
    if git:
        # the work tree after the checkout: clean | edited | edited and staged (work tree == index != HEAD) | a new file added
        # to the index | only an untracked file (which does not make the tree dirty)
        steps.append({"cmd": "git", "ops": [["checkout", 0]] + rng.choice([[], [["dirty"]], [["dirty"], ["stage"]], [["staged_new"]],
                                                                         [["untracked"]], [["dirty"], ["stage"], ["dirty"]]])})
    steps.append(G.run_step(rng, 160, target=rng.choice(["//:all", "//pk:b", "//:a"]), again=True, p_fail=0.35,
                            jobs=rng.choice([None, 2])))
    steps.append({"cmd": "archive", "argv": ["archive", "-o", "../A.tar.gz"], "out": "../A.tar.gz", "sel": {}})
    steps.append({"cmd": "gc", "argv": ["gc"]})
    steps.append({"cmd": "clean", "argv": ["clean", "-f"]})
    steps.append(G.run_step(rng, 300, target="//:d", again=False, p_fail=0.0))
    steps.append({"cmd": "restore", "argv": ["restore", "../A.tar.gz"], "archive": "../A.tar.gz", "if_exists": "../A.tar.gz"})
    # the same restore once more (what a user does after an interrupted restore; after a complete one it must be refused)
    steps.append({"cmd": "restore", "argv": ["restore", "../A.tar.gz"], "archive": "../A.tar.gz", "if_exists": "../A.tar.gz",
                  "defect": "none", "label": "retry"})
    steps.append(G.run_step(rng, 400, again=False, p_fail=0.2))
    for st in steps:
        if st["cmd"] == "run":
            st["tidy"] = G.tidy_choice(rng, proj)      # tasks that clear / overwrite *.json in their own output directory
    real = [i for i, s in enumerate(steps) if s["cmd"] in ("run", "archive", "gc", "restore")]
    for i in real:
        steps[i]["count"] = crash is None
    if crash is not None:
        steps[crash[0]]["crash_at"] = crash[1]
        steps[crash[0]]["label"] = "crashed"
    scn = {"project": proj, "steps": steps, "tag": [k, git, crash], "_real": real}
    if git:
        scn["git"] = {"commits": 2, "dirty": dirty, "sha256": k % 8 == 5, "nested": bool(dirty) and dirty != "staged"}
    return scn


def sig(scn, h, st, clause):
    return {"git": bool(scn.get("git"))}


def main(tier):
    rep = C.Report(PROP, tier, "fault_enumeration")
    rng = random.Random(rep.seed + 6)
    mc = storemodel.check(rep, tier, PROP)
    if rep.machinery_errors:
        return rep.finish()
    nbase = 4 if tier == "quick" else 6
    seeds = [rng.randrange(1 << 30) for _ in range(nbase)]
    base = [scenario(random.Random(s), k, git=(k % 2 == 1), dirty=("staged" if k % 8 == 7 else (k % 4 == 3))) for k, s in enumerate(seeds)]
    hists, traces, verdicts, tr, other, nontriv = F.run_and_judge(rep, base, CLAUSES, sig_fn=sig)
    crash_scns = []
    per_cmd = {}
    for k, (scn, h) in enumerate(zip(base, hists)):
        if not h or "steps" not in h:
            continue
        # map executed steps back to scenario step indices (harness-level steps are not recorded)
        exec_idx = [i for i, s in enumerate(scn["steps"]) if s["cmd"] not in ("plant", "git", "damage", "copyproject")]
        if len(exec_idx) != len(h["steps"]):
            exec_idx = exec_idx[:len(h["steps"])]
        for hi, si in enumerate(exec_idx):
            st = h["steps"][hi]
            if si not in scn["_real"] or not st.get("effects"):
                continue
            eff = st["effects"]
            pts = list(range(1, eff + 1))
            if tier == "quick" and not (k == 0 and st["cmd"] == "restore" and scn["steps"][si].get("label") != "retry"):
                # (the first history's restore is killed at EVERY point also in the quick tier: it is followed by a retry, and
                # what the retry makes of a half-copied directory depends on the exact file the kill fell on)
                pts = sorted(rng.sample(pts, min(len(pts), 8)))
            for c in pts:
                crash_scns.append(scenario(random.Random(seeds[k]), len(crash_scns), crash=(si, c), git=(k % 2 == 1),
                                           dirty=("staged" if k % 8 == 7 else (k % 4 == 3))))
                per_cmd[st["cmd"]] = per_cmd.get(st["cmd"], 0) + 1
    h2, t2, v2, tr2, other2, nontriv2 = F.run_and_judge(rep, crash_scns, CLAUSES, sig_fn=sig)
    crashed = sum(1 for t in t2 for s in t["steps"] if s["crashed"])
    rep.cov.update({
        "states": mc.distinct, "transitions": mc.generated,
        "traces_validated_against_impl": len(traces) + len(t2),
        "evaluations": len(base) + len(crash_scns), "distinct_nontrivial": len(nontriv | nontriv2),
        "crash_points_by_command": per_cmd, "commands_actually_killed": crashed,
        "rule": "history = run(-j2?, failing/killed tasks) ; [git checkout older commit, dirty tree] ; run --again ; archive ; gc ; "
                "clean ; run ; restore ; run.  Each run/archive/gc/restore is killed (os._exit) right before its k-th effectful C "
                "call for k = 1..K (quick: 8 sampled k per command); the rest of the history continues on the survivor; "
                "distinct by per-step signature",
        "exhaustive": tier == "thorough",
    })
    if t2:
        t = t2[len(t2) // 2]
        rep.add_sample({"tag": crash_scns[t["id"]]["tag"], "steps": [[s["cmd"], s["exit"], s["crashed"], len(s["after"]["rows"]),
                                                                       len(s["after"]["vdirs"])] for s in t["steps"]]})
    rep.assumptions += ["disk / index / process state only changes at effectful C calls (posix.*, io.open, sqlite execute/commit, "
                        "fork_exec) made by the main thread; sqlite's own commit atomicity is trusted",
                        "`finished output` = the task's own completion marker plus stdout.log/stderr.log and args.json/options.json "
                        "exactly when non-empty", "cond clean is excluded (documented exception)"]
    return rep.finish()


def replay(path):
    return F.replay_history(path, CLAUSES, PROP)


def selftest():
    return F.selftest(PROP)
