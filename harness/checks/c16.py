"""C16 - an interrupt stops all running tasks and records nothing unfinished.

The real `cond run` executes under the FakeKernel; the registered SIGINT/SIGTERM handler is invoked (as CPython would, at
a byte-code boundary of the main thread) at the k-th executed line of Conductor's own code, for every k of a reference
execution (quick: every line of the execution modules + a stride over the rest), plus right after fork_exec returns.
Each aborted execution is judged by TLC against RunObs clauses AllLiveKilled, AbortedNotInternal, RowsOnlyForExit0.
Executor.tla models the interrupt as an Abort action enabled (once) at every step, with start_execution split into
child-forked / Popen-bound / handle-returned / registered: TLC shows AllLiveKilled and AbortedNotInternal hold in the
design except when the interrupt lands in the two windows listed as known findings K1 and K2.
"""
import json
import os
import random

from .. import common as C
from .. import runcheck as RC
from .. import runobs as R
from . import runfamily

PROP = "C16"
CLAUSES = {"AllLiveKilled", "AbortedNotInternal", "RowsOnlyForExit0"}
EXEC_FILES = {"executor.py", "run_task_executable.py", "operation.py", "sigchld.py", "output_handler.py", "tee.py",
              "handle.py", "combine_outputs.py", "noop.py", "version_index.py"}


def shapes():
    def g(n, deps, kind, par):
        return {"n": n, "target": n, "deps": deps, "kind": kind, "par": par, "cachedTs": [0] * n, "stale": [False] * n,
                "again": False, "atLeast": False, "now": 1000, "lastTs0": 0}
    return [
        ("one-exp", g(1, [[]], ["exp"], [False]), 1),
        ("two-parallel", g(3, [[], [], [1, 2]], ["exp", "cmd", "group"], [True, True, False]), 2),
        ("chain", g(3, [[], [1], [2]], ["exp", "exp", "cmd"], [False, False, False]), 1),
        ("diamond-j2", g(4, [[], [1], [1], [2, 3]], ["cmd", "exp", "exp", "combine"], [True, True, True, False]), 2),
        ("three-parallel-j3", g(4, [[], [], [], [1, 2, 3]], ["exp", "exp", "exp", "group"], [True, True, True, False]), 3),
        # tasks that exit NON-zero around the interrupt: a status collected by the SIGCHLD handler but not yet consumed by the
        # main loop belongs to a task that has not succeeded - no version may be recorded for it whatever the abort path does
        ("two-parallel-fail", g(3, [[], [], [1, 2]], ["exp", "exp", "group"], [True, True, False]), 2, {"//:t2": 3}),
        ("three-parallel-j3-fail", g(4, [[], [], [], [1, 2, 3]], ["exp", "exp", "exp", "group"], [True, True, True, False]), 3,
         {"//:t1": 3, "//:t3": {"signal": 9}}),
        # a task that cannot be LAUNCHED (fork/exec fails) earlier in the same run, other tasks still to run: whatever the
        # failed launch left behind must not change what an interrupt does afterwards
        ("launch-failure-then-two", g(4, [[], [], [], [1, 2, 3]], ["exp", "exp", "cmd", "group"], [True, True, False, False]), 2,
         {}, ["//:t1"]),
        # a git-managed project whose first experiment has versions recorded at older commits: planning talks to git (one
        # subprocess per candidate version) - the interrupt may arrive there too; every line of the planning code is a point
        ("git-planning", g(3, [[], [1], [2]], ["exp", "exp", "group"], [False, False, False]), 1, {}, [], "git"),
    ]
PLAN_FILES = {"run.py", "git.py", "planner.py", "base.py", "version_index.py"}


def make(shape, seed, abort_at=None, after_fork=None, sig="SIGINT", log=False, in_write=None):
    name, g, jobs = shape[:3]
    codes = shape[3] if len(shape) > 3 else {}
    fail_launch = shape[4] if len(shape) > 4 else []
    scn = RC.scenario_from_graph(g, placement=0, jobs=jobs,
                                 sched={"seed": seed, "p_exit": 0.08 if not codes else 0.3, "p_deliver": 0.5 if not codes else 0.25,
                                        "allow_steal": False, "codes": codes, "fail_launch": fail_launch})
    if len(shape) > 5 and shape[5] == "git" and RC._GIT_TPL:
        commits = RC._GIT_TPL["commits"]
        scn["git"] = True
        scn["project"]["config"] = ""
        scn["project"]["index"] = [{"task": "//:t1", "ts": 5, "commit": commits[0], "dirty": False},
                                   {"task": "//:t1", "ts": 7, "commit": commits[1], "dirty": False}]
        scn["project"]["dirs"] = [{"task": "//:t1", "ts": 5, "files": {"r": "old"}}, {"task": "//:t1", "ts": 7, "files": {"r": "old"}}]
        scn["reusable_override"] = {"//:t1": True, "//:t2": False}
    scn["abort_at"] = abort_at
    scn["abort_after_fork"] = after_fork
    scn["abort_in_write"] = in_write
    scn["abort_sig"] = sig
    scn["count_lines"] = True
    scn["log_lines"] = log
    scn["shape"] = name
    return scn


def main(tier):
    rep = C.Report(PROP, tier, "fault_enumeration")
    rng = random.Random(rep.seed + 16)
    RC.warm()
    # layer 1: Executor.tla with the Abort action: C16 holds in the design except in the two known windows
    kinds = ["exp", "group"] if tier == "quick" else ["exp", "cmd", "group"]
    cfg = runfamily.exec_cfg("_gen_Exec_C16.cfg", 3, kinds, 2, [False], False, runfamily.MODEL_SECOND_REAPER,
                             invs=["C01", "C04", "C09", "C16", "C16Rows", "PipeMatchesList"], allow_abort=True)
    mc = C.run_tlc("Executor.tla", cfg=cfg, timeout=1200 if tier == "quick" else 3000)
    if mc.error or (mc.timed_out and tier == "quick"):
        rep.machinery("TLC Executor (abort) model check failed: %s" % (mc.error or "timeout"))
        return rep.finish()
    if mc.violated or mc.deadlock:
        rep.drift.append("Executor.tla with Abort violates %s" % (mc.violated or "deadlock freedom"))
    rep.cov.update({"states": mc.distinct, "transitions": mc.generated, "model_invariants_violated": sorted(set(mc.violated))})
    gitdir = os.path.join(C.scratch_root(), "c16git_%d" % os.getpid())
    import shutil as _sh
    _sh.rmtree(gitdir, ignore_errors=True)
    RC.set_git_template(RC.make_git_template(gitdir))
    sh = shapes()
    seeds = [3] if tier == "quick" else [3]     # thorough: every line and every write of one schedule per shape (two did not finish in 80 minutes beside another check)
    refs = []
    for s in sh:
        for seed in seeds:
            refs.append((s, seed))
    ref_res = RC.run_batch([make(s, seed, log=True) for s, seed in refs])
    scns = []
    for (s, seed), r in zip(refs, ref_res):
        if r is None or "_error" in r or "_timeout" in r:
            rep.machinery("reference run failed: %s" % str(r)[:500])
            continue
        log = r.get("line_log") or []
        L = r["lines"]
        exec_lines = [i + 1 for i, (f, ln, fn) in enumerate(log) if f in EXEC_FILES]
        if tier == "quick":
            first = min(exec_lines) if exec_lines else 1
            picks = set(exec_lines[::4]) | set(range(1, L + 1, 131)) | {L, L - 1}
            picks |= {i + 1 for i, (f, ln, fn) in enumerate(log) if fn in ("start_execution", "_launch_ops_if_able", "run_plan",
                                                                          "add_op", "wait_for_next_op") and (i % 2 == 0)}
            if len(s) > 5 and s[5] == "git":
                picks |= {i + 1 for i, (f, ln, fn) in enumerate(log) if f in PLAN_FILES}
        else:
            picks = set(range(1, L + 1))
        for k in sorted(picks):
            scns.append(make(s, seed, abort_at=k, sig="SIGTERM" if k % 5 == 0 else "SIGINT"))
        # ... and while the main thread is inside a write to its own stdout / stderr (blocked on a stalled pipe)
        for w in range(1, r.get("writes", 0) + 1, 2 if tier == "quick" else 1):
            scns.append(make(s, seed, in_write=w, sig="SIGTERM" if w % 4 == 0 else "SIGINT"))
        nsp = sum(1 for e in r["events"] if e["e"] == "Spawn")
        for o in range(1, nsp + 1):
            scns.append(make(s, seed, after_fork=o))
    results = RC.run_batch(scns, timeout=600)
    verdicts, traces, errs, tr = RC.judge_batch(scns, results)
    for i, r in errs:
        rep.machinery("abort run %d failed: %s" % (i, str(r)[:600]))
    by_id = {t["id"]: t for t in traces}
    classes = {}
    nontriv = set()
    injected = 0
    for i, cl in verdicts.items():
        t = by_id[i]
        ab = [e for e in results[i]["events"] if e["e"] == "Abort"]
        if not ab:
            continue
        injected += 1
        a = ab[0]
        live = len(a.get("live", []))
        nontriv.add((scns[i]["shape"], a["file"], a["line"], live > 0))
        bad = sorted(set(cl) & CLAUSES)
        key = (a["file"], a["func"], bool(a.get("in_del")), tuple(bad))
        classes[key] = classes.get(key, 0) + 1
        if bad:
            exc = results[i].get("exc") or ""
            stderr = results[i].get("stderr") or ""
            unbound = "UnboundLocalError" in exc or "UnboundLocalError" in stderr
            evs = results[i]["events"]
            ai = evs.index(a)
            spawned_before = [e["t"] for e in evs[:ai] if e["e"] == "Spawn"]
            killed = {e.get("t") for e in evs if e["e"] == "Kill"}
            exited_own = {e["t"] for e in evs if e["e"] == "Exit"}
            leaked = [t_ for t_ in a.get("live_tasks", []) if t_ not in killed and t_ not in exited_own]
            only_new = bool(leaked) and bool(spawned_before) and set(leaked) == {spawned_before[-1]}
            # ... and the scheduler had not done anything visible (no line printed, no read of the SIGCHLD pipe, no waitpid)
            # since that spawn: the signal arrived inside the spawn-and-register sequence, wherever its byte-codes live
            before_any_act = only_new and a.get("acts", 1) == 0
            rep.violation({"clause": bad[0], "file": a["file"], "func": a["func"], "in_del": bool(a.get("in_del")),
                           "unbound_local": unbound, "only_unregistered_leaked": only_new, "before_next_scheduler_action": before_any_act},
                          scns[i], "abort at %s:%s (%s)%s with %d live task process(es): %s; exit=%s %s" % (
                              a["file"], a["line"], a["func"], " inside a finalizer" if a.get("in_del") else "", live, bad,
                              results[i]["status"], (exc or stderr[-160:]).replace("\n", " | ")),
                          extra={"trace": t})
    _sh.rmtree(gitdir, ignore_errors=True)
    rep.cov.update({
        "evaluations": len(scns), "distinct_nontrivial": len(nontriv), "aborts_injected": injected,
        "traces_validated_against_impl": len(verdicts),
        "injection_classes": {"%s:%s%s -> %s" % (k[0], k[1], " (finalizer)" if k[2] else "", list(k[3]) or "ok"): v
                              for k, v in sorted(classes.items(), key=lambda x: -x[1])[:40]},
        "rule": "shapes %s x schedule seeds %s; abort (SIGINT, every 5th SIGTERM) injected at executed-line index k of Conductor's "
                "code (%s) and right after each fork_exec; non-trivial = distinct (shape, file, line, any live process)" % (
                    [s[0] for s in sh], seeds, "every line" if tier == "thorough" else
                    "every 4th line of the execution modules, every 2nd line of the launch/wait functions, stride 131 elsewhere"),
        "exhaustive": tier == "thorough",
    })
    if traces:
        t = traces[len(traces) // 2]
        rep.add_sample({"shape": scns[t["id"]]["shape"], "abort_at": scns[t["id"]]["abort_at"],
                        "events": [[e["e"], e.get("t")] for e in t["events"]]})
    rep.assumptions += ["signal delivery points = executed lines of Conductor's own code in the main thread, the return of "
                        "fork_exec, and the inside of each write of the main thread to stdout / stderr (the stream is locked while "
                        "the handler runs, as io.BufferedWriter is); delivery inside other library calls is represented by the "
                        "adjacent lines",
                        "FakeKernel: SIGTERM to a process group terminates the (fake) child"]
    return rep.finish()


def replay(path):
    from .. import replaytool
    return replaytool.replay_run(path, CLAUSES)
