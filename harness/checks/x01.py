"""X01 (extra, not a listed property) - the version-index migration v1 -> v2 survives a kill.

Migration.tla models VersionIndex._run_v1_to_v2_migration statement by statement with the transaction semantics of
Python's sqlite3 module and a non-atomic backup copy; TLC checks NoVersionLost / MigratedExactly (hold) and Resumable /
BackupFaithful (violated by the code as it is: leads).  The real create_or_load is then run on real v1 index files and
killed before its k-th effectful call for EVERY k, started again (twice), and the observed sequence of index / backup
states is validated against Migration.tla by TLC (Migration_Trace.tla: the kill point is not logged, TLC searches for it).
An observed sequence that is not a behaviour of the model is MODEL-DRIFT.  What the model predicts and the code confirms is
printed as FINDING (these concern no listed property: exit status stays 0, nothing is written to known_findings.json).
Evidence: /verif/extras/X01.json.
"""
import json
import os
import random
import shutil
import sqlite3
import tempfile

from .. import common as C
from .. import runcheck as RC
from .. import store as S

PROP = "X01"
BACKUP = "version_index_backup-v1-v2.sqlite"


def make_v1(path, rows):
    import conductor.execution.version_index_queries as q
    conn = sqlite3.connect(path)
    conn.execute(q.set_format_version.format(version=1))
    conn.execute(q.v1_create_table)
    for t, ts, c in rows:
        conn.execute(q.v1_insert_new_version, (t, ts, c))
    conn.commit()
    conn.close()


def invoke(job):
    """Forked child: the real create_or_load, optionally killed before its k-th effectful call."""
    path, crash_at, count = job
    import pathlib
    from conductor.execution.version_index import VersionIndex
    prof = S.CrashProfile(crash_at) if (crash_at is not None or count) else None
    import sys
    try:
        if prof:
            sys.setprofile(prof)
        try:
            vi = VersionIndex.create_or_load(pathlib.Path(path))
            n = len(vi.get_all_versions())
            out = {"outcome": "ok", "n": n}
        finally:
            sys.setprofile(None)
    except BaseException as e:  # noqa: B902 - the outcome is the observation
        out = {"outcome": "error", "exc": "%s: %s" % (type(e).__name__, str(e)[:200])}
    if prof:
        out["effects"] = prof.n
        out["effect_log"] = prof.log[-40:]
    return out


def observe(job):
    """Forked child: the index file and the backup as a later command would find them."""
    path, orig_keys, orig_bytes = job
    conn = sqlite3.connect(path)
    fmt = conn.execute("PRAGMA user_version").fetchone()[0]
    tabs = {r[0]: r[1] for r in conn.execute("SELECT name, sql FROM sqlite_master WHERE type = 'table'")}
    res = {"fmt": fmt, "old": "absent", "new": "absent", "cur": "absent"}

    def cls(name):
        keys = sorted((r[0], r[1]) for r in conn.execute("SELECT task_identifier, timestamp FROM %s" % name))
        return "orig" if keys == orig_keys else ("empty" if not keys else "other")
    if "version_index" in tabs:
        slot = "cur" if "git_commit_hash" in tabs["version_index"] else "old"
        res[slot] = cls("version_index")
    if "version_index_new" in tabs:
        res["new"] = cls("version_index_new")
    conn.close()
    bp = os.path.join(os.path.dirname(path), BACKUP)
    if not os.path.exists(bp):
        res["backup"] = "absent"
    else:
        res["backup"] = "full" if open(bp, "rb").read() == orig_bytes else "torn"
    return res


def history(job):
    rows, crash_at = job
    d = tempfile.mkdtemp(prefix="cvmig_", dir=C.scratch_root())
    try:
        path = os.path.join(d, "version_index.sqlite")
        make_v1(path, rows)
        orig_bytes = open(path, "rb").read()
        keys = sorted((t, ts) for t, ts, _c in rows)
        obs = []
        detail = []
        for inv in range(3):
            r = C.fork_map(invoke, [(path, crash_at if inv == 0 else None, crash_at is None and inv == 0)], nproc=1, timeout=120)[0]
            if r is None or (isinstance(r, dict) and r.get("_error") == "child died without result"):
                r = {"outcome": "killed"}
            elif "_error" in r or "_timeout" in r:
                return {"_error": str(r)[:400]}
            o = C.fork_map(observe, [(path, keys, orig_bytes)], nproc=1, timeout=60)[0]
            if o is None or "_error" in o:
                return {"_error": "observer failed: %s" % str(o)[:300]}
            o["outcome"] = r["outcome"]
            obs.append(o)
            detail.append(r)
        return {"obs": obs, "detail": detail}
    finally:
        shutil.rmtree(d, ignore_errors=True)


def main(tier):
    rep = C.Report(PROP, tier, "model_checking")
    rng = random.Random(rep.seed + 101)
    RC.warm()
    # layer 1: the model of the code as it is (leads) and of a repaired migration (must be clean)
    leads = []
    INVS = ["NoVersionLost", "MigratedExactly", "BackupFaithful", "Resumable"]
    for inv in INVS:
        # the code as it is, one invariant at a time (TLC stops at the first violated one)
        with open(os.path.join(C.SPECS, "_gen_Migration_%s.cfg" % inv), "w") as f:
            f.write("CONSTANT NRows = 2\nCONSTANT MaxCrashes = 2\nCONSTANT CheckTmpTable = FALSE\nCONSTANT AtomicBackup = FALSE\n"
                    "SPECIFICATION Spec\nINVARIANT %s\nCHECK_DEADLOCK TRUE\n" % inv)
        mc = C.run_tlc("Migration.tla", cfg="_gen_Migration_%s.cfg" % inv, workers=4, timeout=600)
        if mc.error or mc.timed_out:
            rep.machinery("Migration.tla (%s) failed: %s" % (inv, mc.error or "timeout"))
            return rep.finish()
        leads += sorted(set(mc.violated))
        rep.cov.update({"states": mc.distinct, "transitions": mc.generated})
    rep.cov["model_invariants_violated"] = leads
    mc = C.run_tlc("Migration.tla", cfg="Migration_repaired.cfg", workers=4, timeout=600)
    if mc.error or mc.timed_out:
        rep.machinery("Migration.tla (repaired) failed: %s" % (mc.error or "timeout"))
        return rep.finish()
    if mc.violated or mc.deadlock:
        rep.drift.append("Migration.tla with CheckTmpTable/AtomicBackup violates %s" % (mc.violated or "deadlock freedom"))
    # layer 1b (thorough): Apalache discharges an INDUCTIVE invariant implying NoVersionLost - any number of kills / restarts
    if tier == "thorough":
        import subprocess
        import shutil as _sh
        outs = []
        with C.Scratch("apa") as ad:
            for init, inv, length in (("Init", "IndInv", 0), ("IndInit", "IndInv", 1), ("IndInit", "NoVersionLost", 0)):
                try:
                    pr = subprocess.run(["apalache-mc", "check", "--init=%s" % init, "--inv=%s" % inv, "--length=%d" % length,
                                         "--out-dir=%s" % ad, "MC_Migration.tla"], cwd=C.SPECS, capture_output=True, text=True, timeout=900)
                    outs.append("NoError" in pr.stdout and "EXITCODE: OK" in pr.stdout)
                except (OSError, subprocess.TimeoutExpired):
                    outs.append(None)
        rep.cov["apalache_inductive_invariant"] = {"base": outs[0], "step": outs[1], "implies_NoVersionLost": outs[2]}
        if any(o is False for o in outs):
            rep.drift.append("Apalache: the inductive invariant of MC_Migration.tla no longer holds: %s" % outs)
    # layer 2: the real migration killed before every effectful call
    rowsets = [[("//:a", 100, "c0ffee")], [("//:a", 100, "c0ffee"), ("//:a", 150, "c0ffee"), ("//pk:b", 101, "deadbeef")]]
    if tier == "thorough":
        rowsets.append([("//p/q:t%d" % i, 100 + i, "%040x" % i) for i in range(200)])
    jobs = []
    for rows in rowsets:
        ref = history((rows, None))
        if "_error" in ref:
            rep.machinery("reference migration failed: %s" % ref["_error"])
            return rep.finish()
        eff = ref["detail"][0].get("effects") or 0
        jobs.append((rows, None))
        for k in range(1, eff + 1):
            jobs.append((rows, k))
    res = C.fork_map(history, jobs, timeout=600)
    traces = []
    for i, (job, r) in enumerate(zip(jobs, res)):
        if r is None or "_error" in r or "_timeout" in r:
            rep.machinery("migration history %d failed: %s" % (i, str(r)[:400]))
            continue
        traces.append({"id": i, "obs": [{k: o[k] for k in ("outcome", "fmt", "old", "new", "cur", "backup")} for o in r["obs"]]})
    if rep.machinery_errors:
        return rep.finish()
    # binding test: an observation sequence with one corrupted field must be REJECTED
    corrupted = []
    for t in traces:
        c1 = json.loads(json.dumps(t))
        c1["id"] = 1000 + t["id"]
        c1["obs"][-1]["cur"] = "empty" if c1["obs"][-1]["cur"] != "empty" else "orig"      # versions lost / appearing
        c2 = json.loads(json.dumps(t))
        c2["id"] = 2000 + t["id"]
        c2["obs"][0]["fmt"] = 3 - c2["obs"][0]["fmt"]                                      # the other format number
        corrupted += [c1, c2]
    with C.Scratch("mig") as d:
        f = os.path.join(d, "t.ndjson")
        with open(f, "w") as fh:
            for t in traces + corrupted:
                fh.write(json.dumps(t) + "\n")
        jr = C.run_tlc("Migration_Trace.tla", cfg="Migration_Trace.cfg", workers=1, timeout=900, env={"TRACE_FILE": f}, dfs=True)
    verdict = {v["id"]: (v["reached"], v["n"]) for v in C.tlc_printed_json(jr) if isinstance(v, dict) and "id" in v}
    if jr.error or len(verdict) != len(traces) + len(corrupted):
        rep.machinery("Migration_Trace failed: %s" % (jr.error or jr.output[-1500:]))
        return rep.finish()
    not_rejected = [c["id"] for c in corrupted if verdict[c["id"]][0] == verdict[c["id"]][1]]
    if not_rejected:
        rep.machinery("the trace specification accepted corrupted traces %s: it does not bind" % not_rejected[:5])
        return rep.finish()
    rep.cov["corrupted_traces_rejected"] = len(corrupted)
    accepted = 0
    findings = {}
    killed = 0
    for t in traces:
        reached, n = verdict[t["id"]]
        if reached == n:
            accepted += 1
        else:
            rep.drift.append("history %d (kill before effect %s) is not a behaviour of Migration.tla: %d/%d observations matched, next %s" % (
                t["id"], jobs[t["id"]][1], reached, n, t["obs"][reached] if reached < n else None))
        if t["obs"][0]["outcome"] == "killed":
            killed += 1
        last = t["obs"][-1]
        if any(o["outcome"] == "error" for o in t["obs"]):
            findings.setdefault("Resumable", []).append(jobs[t["id"]][1])
        if last["fmt"] == 2 and last["backup"] != "full":
            findings.setdefault("BackupFaithful", []).append(jobs[t["id"]][1])
        if not ((last["fmt"] == 1 and last["old"] == "orig") or (last["fmt"] == 2 and last["cur"] == "orig")):
            findings.setdefault("NoVersionLost", []).append(jobs[t["id"]][1])
    for lead in leads:
        if lead in ("Resumable", "BackupFaithful") and lead not in findings:
            rep.drift.append("Migration.tla violates %s but no killed real migration shows it" % lead)
    text = {"Resumable": "a migration killed after `CREATE TABLE version_index_new` (autocommitted by sqlite3) leaves that table behind; every "
                         "later command then dies in create_or_load with sqlite3.OperationalError (table already exists) - the index "
                         "stays at format 1 for good",
            "BackupFaithful": "a migration killed while shutil.copy2 writes the backup leaves a torn backup file; the next run sees that it "
                              "exists, skips the copy and migrates - the v1 backup next to the migrated index is not a copy of it",
            "NoVersionLost": "recorded versions were lost by a killed migration"}
    for k, ks in sorted(findings.items()):
        print("FINDING (outside the listed properties) %s: %s [kill before effectful call %s of the first invocation]" % (k, text[k], sorted(set(ks))[:12]))
    rep.cov.update({"evaluations": len(traces), "traces_validated_against_impl": len(traces), "traces_accepted_by_Migration_tla": accepted,
                    "distinct_nontrivial": killed, "kill_points": killed, "findings": {k: len(v) for k, v in findings.items()},
                    "rule": "v1 index files with %s rows; create_or_load killed before each of its effectful calls (POSIX + sqlite), then run "
                            "twice more; observations after every invocation validated against Migration.tla" % [len(r) for r in rowsets]})
    if traces:
        rep.add_sample(traces[min(5, len(traces) - 1)])
    return rep.finish()


def replay(path):
    print("X01 has no replay files (findings are printed with their kill point)")
    return 2


def selftest():
    return 0
