"""C08 - every experiment execution gets a fresh, unique version directory; recorded versions are immutable.

Store.tla (clock with stutter / step back, run / crash / restore of foreign archives / gc) is model-checked against
the StoreObs clauses; real histories with a fake clock (several invocations within one second, clock stepping
backwards, failed / killed / crashed executions, restores of archives carrying future timestamps) are executed and
every command's before/after projection plus what each task saw at its start are judged by TLC.
"""
import random

from .. import common as C
from .. import storegen as G
from . import storefamily as F
from . import storemodel

PROP = "C08"
CLAUSES = {"IdAboveRecorded", "DirFresh", "DirEmptyAtStart", "IdUnique", "RecordedImmutable", "NoWriteAfterRecord", "GcKeepsRecorded",
           "ArchiveReadOnly"}


def git_scenario(rng, k):
    """git-managed project: versions recorded at an older commit, HEAD moves on, then runs that must NOT reuse them
    (--this-commit, --at-least <newer commit>) next to runs that may: every new execution gets a new directory and the
    recorded ones stay as they are."""
    proj = G.base_project(rng, git=True)
    steps = [{"cmd": "git", "ops": [["checkout", 0]]},
             G.run_step(rng, 100, target="//:all", again=False, p_fail=0.2),
             {"cmd": "git", "ops": [["checkout", 1]] + ([["dirty"]] if rng.random() < 0.3 else [])}]
    clock = 100
    for _ in range(rng.randrange(2, 5)):
        clock = max(1, clock + rng.choice([0, 0, 1, 60, -5]))
        st = G.run_step(rng, clock, target=rng.choice(["//:all", "//:a", "//pk:b", "//:d"]), again=False, p_fail=0.3)
        st["argv"] += rng.choice([["--this-commit"], ["--at-least", "@commit1"], ["--at-least", "@commit0"], []])
        steps.append(st)
        if rng.random() < 0.3:
            steps.append({"cmd": "git", "ops": [["checkout", rng.choice([0, 1])]]})
    return {"project": proj, "steps": steps, "tag": k, "git": {"commits": 2}}


def scenario(rng, k):
    if k % 4 == 3:
        return git_scenario(rng, k)
    proj = G.base_project(rng)
    if k % 10 == 6:
        # one dependency listed under two spellings: the definition is refused (C14) - were it accepted, the experiment behind
        # it would be made ready twice by the one completion of its dependency
        for t in proj["tasks"]:
            if t["name"] == "d":
                t["deps"] = [":a", "//:a"]
    steps = []
    clock = 100
    if rng.random() < 0.5:
        # an archive from "the future" (made while the clock was ahead), restored later
        steps += [G.run_step(rng, 200, again=False, p_fail=0.0),
                  {"cmd": "archive", "argv": ["archive", "-o", "../A.tar.gz"], "out": "../A.tar.gz", "sel": {}},
                  {"cmd": "clean", "argv": ["clean", "-f"]}]
    have_arch = bool(steps)
    for _ in range(rng.randrange(3, 7)):
        r = rng.random()
        clock = max(1, clock + rng.choice([0, 0, 0, 1, 1, -1, -7, 5]))
        if r < 0.6:
            st = G.run_step(rng, clock, target=rng.choice(["//:all", "//:a", "//pk:b", "//:d"]), again=True,
                            p_fail=0.45, jobs=rng.choice([None, None, 2]))
            if rng.random() < 0.25:
                st["crash_at"] = rng.randrange(8, 70)
            if rng.random() < 0.2:
                # started from inside an outer task (or from a shell that exported them): COND_* of somebody else
                st["env"] = {"COND_OUT": "@root/cond-out/" + rng.choice(["a.task.100", "pk/b.task.101", "d.task.100", "outer.task"]),
                             "COND_DEPS": "@root/cond-out/a.task.100", "COND_NAME": "outer", "COND_SLOT": "0"}
            elif "-j" not in st["argv"] and rng.random() < 0.4:
                # sequential (teed) run whose tasks leave a helper behind that prints after the shell has exited: the index
                # is watched while the command runs - nothing may change in a version directory once its row is there
                st["late"] = [nm for _p, nm in G.EXPS if rng.random() < 0.6]
                st["watch"] = True
            steps.append(st)
        elif r < 0.75 and have_arch:
            steps.append({"cmd": "restore", "argv": ["restore", "../A.tar.gz"], "archive": "../A.tar.gz", "clock": clock})
            if rng.random() < 0.5:
                # the same archive again: every version in it is recorded by now, the restore must fail and touch nothing
                steps.append({"cmd": "restore", "argv": ["restore", "../A.tar.gz"], "archive": "../A.tar.gz", "clock": clock,
                              "defect": "none"})
            have_arch = False
        elif r < 0.9:
            steps.append({"cmd": "gc", "argv": ["gc"], "clock": clock})
        else:
            steps.append(G.run_step(rng, clock, again=False, p_fail=0.3))
    if rng.random() < 0.3:
        # archive what is recorded now and restore it straight back into the originating project
        steps.append({"cmd": "archive", "argv": ["archive", "-o", "../Z.tar.gz"], "out": "../Z.tar.gz", "sel": {}})
        steps.append({"cmd": "restore", "argv": ["restore", "../Z.tar.gz"], "archive": "../Z.tar.gz", "if_exists": "../Z.tar.gz"})
    return {"project": proj, "steps": steps, "tag": k}


def sig(scn, h, st, clause):
    raw = h["steps"][st]
    prev = h["steps"][st - 1] if st > 0 else None
    same_second = False
    if raw["cmd"] == "run":
        bk = {(v["task"], v["ts"]) for v in raw["before"]["vdirs"].values()}
        rk = {(r["task"], r["ts"]) for r in (raw["before"]["rows"] or [])}
        for sp in raw.get("spawns", []):
            from ..store import _ident_from_out
            ident, ts = _ident_from_out(sp["out"], h["root"])
            if (ident, ts) in bk and (ident, ts) not in rk:
                same_second = True
    return {"reuses_unrecorded_dir": same_second}


def main(tier):
    rep = C.Report(PROP, tier, "model_checking")
    rng = random.Random(rep.seed + 8)
    mc = storemodel.check(rep, tier, PROP)
    if rep.machinery_errors:
        return rep.finish()
    n = 120 if tier == "quick" else 4000
    scns = [scenario(rng, k) for k in range(n)]
    hists, traces, verdicts, tr, other, nontriv = F.run_and_judge(rep, scns, CLAUSES, sig_fn=sig)
    spawns = sum(len(s.get("spawns", [])) for t in traces for s in t["steps"])
    rep.cov.update({
        "states": mc.distinct, "transitions": mc.generated, "traces_validated_against_impl": len(traces),
        "evaluations": len(scns), "distinct_nontrivial": len(nontriv), "experiment_executions_observed": spawns,
        "rule": "history = optional (run@clock 200; archive; clean) prelude, then 3-6 commands from {run --again with failing / "
                "killed tasks (optionally killed at a random effect), restore of the future archive, gc, plain run} with the "
                "clock moving by {0,0,0,+1,+1,-1,-7,+5} seconds between commands; distinct by per-step signature",
        "clauses_of_other_properties_seen": other,
    })
    if traces:
        t = traces[0]
        rep.add_sample({"steps": [[s["cmd"], s["exit"], s.get("spawns")] for s in t["steps"]]})
    rep.assumptions += ["a task observes the emptiness of its directory itself (ls -A at start, Conductor's own log files excepted)"]
    return rep.finish()


def replay(path):
    return F.replay_history(path, CLAUSES, PROP)


def selftest():
    return F.selftest(PROP)
