"""C12 - restore is all-or-nothing and never overwrites.

Store.tla (restore as Stage / Extract / Load / Copy* / Commit / Rollback / Cleanup with Crash anywhere, foreign and
damaged archives, a preceding crashed restore) is model-checked against the StoreObs restore clauses; real archives
produced by the real `cond archive` are damaged in every listed way and restored into several prior project states,
with the restore killed before every effectful system call; projections judged by TLC.
"""
import random

from .. import common as C
from .. import storegen as G
from . import storefamily as F
from . import storemodel

PROP = "C12"
CLAUSES = {"FailedRestoreKeepsIndex", "RecordedImmutable", "SuccessMeansAll", "RestoreAddsExactlyArchive",
           "CannotCompleteMeansUnchanged", "RestoreTouchesNothingElse"}
DEFECTS = [("none", None, None), ("noindex", "noindex", None), ("missing", "missing", 0), ("missing", "missing", 1),
           ("truncated", "truncate", 0.2), ("truncated", "truncate", 0.6), ("truncated", "truncate", 0.95),
           ("badindex", "badindex", None), ("filefordir", "filefordir", 0),
           # cut exactly where the tar stream reaches a member boundary (start / middle / end of the header of the last,
           # the last but one, the 4th from last member): a reader that takes "no more headers" for "end of archive" accepts these
           ("truncated", "cut_at_member", (0, 0)), ("truncated", "cut_at_member", (0, 1)), ("truncated", "cut_at_member", (0, 2)),
           ("truncated", "cut_at_member", (1, 0)), ("truncated", "cut_at_member", (3, 1))]


def prelude(rng, proj):
    steps = [G.run_step(rng, 100, again=False, p_fail=0.0)]
    if rng.random() < 0.5:
        steps.append(G.run_step(rng, 150, target=rng.choice(["//:a", "//pk:b"]), again=True, p_fail=0.0))
    steps.append({"cmd": "archive", "argv": ["archive", "-o", "../A.tar.gz"], "out": "../A.tar.gz", "sel": {}})
    steps.append({"cmd": "archive", "argv": ["archive", "-o", "../B.tar.gz"], "out": "../B.tar.gz", "sel": {}})
    return steps


def scenario(rng, k, crash=None, defect=None, prior=None, stale=None, v1index=None):
    proj = G.base_project(rng)
    steps = prelude(rng, proj)
    defect = defect if defect is not None else rng.choice(DEFECTS)
    prior = prior if prior is not None else rng.choice(["empty", "empty", "other", "same", "destdir", "pkgfile"])
    stale = stale if stale is not None else (rng.random() < 0.3)
    v1index = v1index if v1index is not None else (rng.random() < 0.25)
    label, how, arg = defect
    if how:
        steps.append({"cmd": "damage", "archive": "../A.tar.gz", "how": how, "arg": arg})
    if prior != "same":
        steps.append({"cmd": "clean", "argv": ["clean", "-f"]})
    if prior == "other":
        steps.append(G.run_step(rng, 300, again=False, p_fail=0.2))
    if prior == "destdir":
        steps.append({"cmd": "plant", "entries": [{"path": "cond-out/a.task.100", "kind": "dir",
                                                    "files": {"mine.txt": "pre-existing, unrecorded"}}]})
    if prior == "pkgfile":
        # a fault DURING the copy phase of an intact archive: a regular file sits where the package directory of //pk:b's
        # (and //pk/sub:c's) versions has to be created - the copy cannot complete
        steps.append({"cmd": "plant", "entries": [{"path": "cond-out/pk", "kind": "file"}]})
    if stale:
        # a valid restore (archive B) that is killed midway, leaving whatever it leaves
        steps.append({"cmd": "restore", "argv": ["restore", "../B.tar.gz"], "archive": "../B.tar.gz",
                      "crash_at": rng.randrange(12, 40), "label": "stale"})
        if prior == "empty":
            steps.append({"cmd": "gc", "argv": ["gc"]})
    if v1index:
        steps.append({"cmd": "downgrade"})
    st = {"cmd": "restore", "argv": ["restore", "../A.tar.gz"], "archive": "../A.tar.gz", "defect": label,
          "label": "target", "count": crash is None}
    if crash is not None:
        st["crash_at"] = crash
    steps.append(st)
    if rng.random() < 0.5:
        steps.append({"cmd": "gc", "argv": ["gc", "-n"]} if rng.random() < 0.5 else G.run_step(rng, 400, again=False))
    return {"project": proj, "steps": steps, "tag": [k, label, prior, stale, crash],
            "_meta": {"defect": defect, "prior": prior, "stale": stale, "v1index": v1index}}


def sig(scn, h, st, clause):
    m = scn.get("_meta", {})
    prev_crashed_restore = any(s["cmd"] == "restore" and s["crashed"] for s in h["steps"][:st])
    return {"defect": m.get("defect", ["?"])[0], "after_crashed_restore": prev_crashed_restore}


def main(tier):
    rep = C.Report(PROP, tier, "fault_enumeration")
    rng = random.Random(rep.seed + 12)
    mc = storemodel.check(rep, tier, PROP)
    if rep.machinery_errors:
        return rep.finish()
    # pass 1: every defect x prior state (no crash), counting the effectful calls of the target restore
    base = []
    k = 0
    for d in DEFECTS:
        for prior in ["empty", "other", "same", "destdir", "pkgfile"]:
            for stale in ([False, True] if (tier == "thorough" or prior == "empty") else [False]):
                base.append(scenario(random.Random(rng.randrange(1 << 30)), k, defect=d, prior=prior, stale=stale,
                                     v1index=(prior in ("other", "same") and k % 2 == 0)))
                k += 1
    # a long-lived project: more than a thousand recorded versions go through one archive / restore
    bulk_rng = random.Random(rng.randrange(1 << 30))
    bulk = {"project": G.base_project(bulk_rng), "tag": [k, "bulk", "empty", False, None],
            "_meta": {"defect": ("none", None, None), "prior": "bulk", "stale": False, "v1index": False},
            "steps": [G.run_step(bulk_rng, 100, again=False, p_fail=0.0), {"cmd": "bulk", "n": 600 if tier == "quick" else 1100},
                      {"cmd": "archive", "argv": ["archive", "-o", "../A.tar.gz"], "out": "../A.tar.gz", "sel": {}},
                      {"cmd": "clean", "argv": ["clean", "-f"]},
                      {"cmd": "restore", "argv": ["restore", "../A.tar.gz"], "archive": "../A.tar.gz", "defect": "none", "label": "target"}]}
    base.append(bulk)
    # a fault at the COMMIT point that is not a kill: another process is in the middle of reading the index (the explorer, a
    # second `cond`), so SQLite cannot take the exclusive lock the commit needs - the restore cannot complete
    lk_rng = random.Random(rng.randrange(1 << 30))
    lk = scenario(lk_rng, k + 1, defect=("none", None, None), prior="other", stale=False, v1index=False)
    for st_ in lk["steps"]:
        if st_.get("label") == "target":
            st_["reader"], st_["defect"], st_["count"] = True, "index_locked", False
    lk["_meta"]["prior"] = "locked"
    base.append(lk)
    hists, traces, verdicts, tr, other, nontriv = F.run_and_judge(rep, base, CLAUSES, sig_fn=sig)
    # pass 2: kill the target restore before every effectful call
    crash_scns = []
    for scn, h in zip(base, hists):
        if not h or "steps" not in h:
            continue
        tgt = [s for s in h["steps"] if s.get("label") == "target"]
        if not tgt or not tgt[0].get("effects"):
            continue
        eff = tgt[0]["effects"]
        m = scn["_meta"]
        if tier == "quick":
            if m["prior"] not in ("empty", "other") or m["stale"]:
                continue
            ks = sorted(set(rng.sample(range(1, eff + 1), min(eff, 6))))
        else:
            # every second effectful call for the plain prior states; every fifth one when a crashed restore came first or the
            # index is still format 1 (the whole product did not finish within two hours on a loaded machine)
            # (thinned again when a sixth experiment joined every history: every 2nd / every 5th, with a rotating offset)
            ks = (range(1 + len(crash_scns) % 2, eff + 1, 2) if not (m["stale"] or m.get("v1index"))
                  else range(1 + len(crash_scns) % 5, eff + 1, 5))
        seed = rng.randrange(1 << 30)
        for c in ks:
            crash_scns.append(scenario(random.Random(seed), len(crash_scns), crash=c, defect=m["defect"], prior=m["prior"],
                                       stale=m["stale"], v1index=m.get("v1index", False)))
    h2, t2, v2, tr2, other2, nontriv2 = F.run_and_judge(rep, crash_scns, CLAUSES, sig_fn=sig)
    for c, n in other2.items():
        other[c] = other.get(c, 0) + n
    rep.cov.update({
        "states": mc.distinct, "transitions": mc.generated,
        "traces_validated_against_impl": len(traces) + len(t2),
        "evaluations": len(base) + len(crash_scns), "distinct_nontrivial": len(nontriv | nontriv2),
        "crash_points": len(crash_scns),
        "rule": "restore of an archive made by the real `cond archive`, damaged per %s, into prior states {empty, other "
                "versions, same versions already recorded, unrecorded destination directory}, optionally after a restore "
                "that was killed midway; then the same restore killed before each effectful C call (mkdir/open/unlink/"
                "fork_exec/sqlite execute/commit...) - quick: sample of 6 points per case, thorough: every 2nd (every 5th after a crashed restore or with a format-1 index); distinct by per-step "
                "signature" % sorted({d[0] for d in DEFECTS}),
        "clauses_of_other_properties_seen": other,
        "exhaustive": False,   # thorough: every 2nd (5th) kill point of every target restore, not every one
    })
    if t2:
        rep.add_sample({"steps": [[s["cmd"], s["exit"], s["crashed"]] for s in t2[0]["steps"]], "tag": crash_scns[0]["tag"]})
    rep.assumptions += ["the on-disk state can only change at effectful C calls, so `killed at any executed line` is covered by "
                        "`killed before any prefix of the effect sequence`; sqlite commit atomicity is trusted",
                        "killed after the commit point counts as completed (all-or-nothing), see DESIGN.md"]
    return rep.finish()


def replay(path):
    return F.replay_history(path, CLAUSES, PROP)


def selftest():
    return F.selftest(PROP)
