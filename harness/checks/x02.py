"""X02 (extra, not a listed property) - several `cond` invocations on one project at the same time.

Store2.tla models two `cond run` invocations of the same experiment and a `cond gc`, interleaved at the steps that touch
shared state (read MAX(timestamp); choose the version and probe its directory at PLANNING time; mkdir at launch time; the
task writes; INSERT + commit; gc scan; gc delete).  TLC finds four leads: DirExclusive, NoIntegrityError (two runs planned
in the same second share a version), RecordedHasDir and GcSparesRunning (gc treats the directory of an execution in progress
as garbage).  The leads' schedules - and schedules in which nothing goes wrong - are then enforced on the real code: each
invocation is the real CLI in its own process with a fake clock; the controller holds it at os.mkdir of a version directory
(after planning), the task at its write (gated agent), gc at its first shutil.rmtree of a version directory.  The observed
events (version chosen, recording outcome, what gc deleted, final index rows and which invocation's payload each directory
holds) are validated against Store2.tla by TLC (Store2_Trace.tla); a rejected execution is MODEL-DRIFT.  Confirmed leads are
printed as FINDING (outside the listed properties); exit status stays 0.  Evidence: /verif/extras/X02.json.
"""
import json
import os
import re
import shutil
import sys
import tempfile
import time

from .. import clirunner as CLI
from .. import common as C
from .. import project as P
from .. import runcheck as RC

PROP = "X02"
AGENT = r'''#!/bin/bash
ctl="$CV_CTL"; inv="$CV_INV"
echo "$COND_OUT" > "$ctl/started_$inv"
while [ ! -e "$ctl/go_write_$inv" ]; do sleep 0.005; done
echo "payload of invocation $inv" > "$COND_OUT/payload_$inv.txt" || exit 1
exit 0
'''
SCHEDULES = {
    "sequential-same-second": [("start", 1, 100), ("mkdir", 1), ("write", 1), ("start", 2, 100), ("mkdir", 2), ("write", 2)],
    "planned-in-the-same-second": [("start", 1, 100), ("start", 2, 100), ("mkdir", 1), ("write", 1), ("mkdir", 2), ("write", 2)],
    "planned-in-the-same-second-interleaved": [("start", 1, 100), ("start", 2, 100), ("mkdir", 1), ("mkdir", 2), ("write", 2), ("write", 1)],
    "planned-in-different-seconds": [("start", 1, 100), ("start", 2, 101), ("mkdir", 2), ("mkdir", 1), ("write", 1), ("write", 2)],
    "second-plans-after-first-mkdir": [("start", 1, 100), ("mkdir", 1), ("start", 2, 100), ("mkdir", 2), ("write", 2), ("write", 1)],
    "gc-scans-while-running": [("start", 1, 100), ("mkdir", 1), ("gcstart",), ("write", 1), ("gcfinish",)],
    "gc-deletes-while-running": [("start", 1, 100), ("mkdir", 1), ("gcstart",), ("gcfinish",), ("write", 1)],
    "gc-after-the-run": [("start", 1, 100), ("mkdir", 1), ("write", 1), ("gcstart",), ("gcfinish",)],
    "gc-between-two-runs": [("start", 1, 100), ("mkdir", 1), ("write", 1), ("start", 2, 105), ("mkdir", 2), ("gcstart",), ("gcfinish",), ("write", 2)],
}


def _wait(path, timeout=60, proc_pid=None):
    t0 = time.time()
    while not os.path.exists(path):
        if proc_pid is not None:
            p, _st = os.waitpid(proc_pid, os.WNOHANG)
            if p:
                return "exited"
        if time.time() - t0 > timeout:
            return "timeout"
        time.sleep(0.005)
    return "ok"


def _invocation(root, ctl, inv, argv, clock, mode, result_path):
    """Forked child: the real CLI with one interposed hold point."""
    pid = os.fork()
    if pid:
        return pid
    try:
        import shutil as _sh
        if mode == "run":
            real_mkdir = os.mkdir

            def mkdir(path, *a, **kw):
                if ".task." in os.path.basename(os.fspath(path)) and not os.path.exists(os.path.join(ctl, "go_mkdir_%s" % inv)):
                    # (written under another name and renamed: the controller must never see the file before its content)
                    with open(os.path.join(ctl, "paused_mkdir_%s.tmp" % inv), "w") as f:
                        f.write(os.fspath(path))
                    os.rename(os.path.join(ctl, "paused_mkdir_%s.tmp" % inv), os.path.join(ctl, "paused_mkdir_%s" % inv))
                    while not os.path.exists(os.path.join(ctl, "go_mkdir_%s" % inv)):
                        time.sleep(0.005)
                return real_mkdir(path, *a, **kw)
            os.mkdir = mkdir
        else:
            real_rmtree = _sh.rmtree

            def rmtree(path, *a, **kw):
                if ".task." in os.path.basename(os.fspath(path)) and not os.path.exists(os.path.join(ctl, "go_rm")):
                    with open(os.path.join(ctl, "paused_rm.tmp"), "w") as f:
                        f.write(os.fspath(path))
                    os.rename(os.path.join(ctl, "paused_rm.tmp"), os.path.join(ctl, "paused_rm"))
                    while not os.path.exists(os.path.join(ctl, "go_rm")):
                        time.sleep(0.005)
                return real_rmtree(path, *a, **kw)
            _sh.rmtree = rmtree
        r = CLI.run_cli(root, argv, clock=clock, env={"CV_CTL": ctl, "CV_INV": str(inv)})
        with open(result_path, "w") as f:
            json.dump({k: r[k] for k in ("status", "stderr", "stderr_kind", "stdout")}, f)
    except BaseException as e:  # noqa: B902
        with open(result_path, "w") as f:
            json.dump({"status": "HARNESS", "stderr": repr(e), "stderr_kind": "harness", "stdout": ""}, f)
    finally:
        os._exit(0)


def execute(job):
    name, ops = job
    d = tempfile.mkdtemp(prefix="cvx02_", dir=C.scratch_root())
    pids = {}
    try:
        root = os.path.join(d, "p")
        P.write_project(root, {"config": "disable_git = true\n", "tasks": [
            {"pkg": "", "name": "a", "kind": "run_experiment", "deps": [], "run": "./agent.sh"}]})
        with open(os.path.join(root, "agent.sh"), "w") as f:
            f.write(AGENT)
        os.chmod(os.path.join(root, "agent.sh"), 0o755)
        ctl = os.path.join(d, "ctl")
        os.makedirs(ctl)
        events, res = [], {}

        def result(key):
            p = os.path.join(d, "res_%s.json" % key)
            return json.load(open(p)) if os.path.exists(p) else {"status": "?", "stderr": "", "stderr_kind": "?", "stdout": ""}

        def ts_of(path):
            m = re.search(r"\.task\.(\d+)$", path.strip())
            return int(m.group(1)) if m else 0

        def listing():
            out = {}
            base = os.path.join(root, "cond-out")
            for e in sorted(os.listdir(base)) if os.path.isdir(base) else []:
                m = re.match(r"^a\.task\.(\d+)$", e)
                if m:
                    out[int(m.group(1))] = sorted(int(x[len("payload_"):-4]) for x in os.listdir(os.path.join(base, e)) if x.startswith("payload_"))
            return out
        for op in ops:
            if op[0] == "start":
                _o, i, clock = op
                pids[i] = _invocation(root, ctl, i, ["run", "//:a", "--again"], clock, "run", os.path.join(d, "res_%s.json" % i))
                w = _wait(os.path.join(ctl, "paused_mkdir_%s" % i), proc_pid=pids[i])
                if w != "ok":
                    return {"_error": "%s: invocation %s did not reach its mkdir (%s): %s" % (name, i, w, result(i))}
                events.append({"e": "Plan", "i": i, "ts": ts_of(open(os.path.join(ctl, "paused_mkdir_%s" % i)).read())})
            elif op[0] == "mkdir":
                i = op[1]
                open(os.path.join(ctl, "go_mkdir_%s" % i), "w").close()
                w = _wait(os.path.join(ctl, "started_%s" % i), proc_pid=pids[i])
                if w != "ok":
                    return {"_error": "%s: task of invocation %s did not start (%s): %s" % (name, i, w, result(i))}
                events.append({"e": "Mkdir", "i": i})
            elif op[0] == "write":
                i = op[1]
                open(os.path.join(ctl, "go_write_%s" % i), "w").close()
                t0 = time.time()
                while True:
                    try:
                        p, _st = os.waitpid(pids[i], os.WNOHANG)
                    except ChildProcessError:
                        p = pids[i]
                    if p:
                        break
                    if time.time() - t0 > 90:
                        return {"_error": "%s: invocation %s did not finish" % (name, i)}
                    time.sleep(0.005)
                pids.pop(i, None)
                r = result(i)
                res[i] = r
                integrity = "IntegrityError" in (r.get("stderr") or "")
                wrote = any(i in v for v in listing().values())
                ok = r["status"] == 0 or integrity
                events.append({"e": "Write", "i": i, "ok": bool(ok)})
                if ok:
                    events.append({"e": "Record", "i": i, "outcome": "integrity_error" if integrity else "recorded"})
                r["wrote"] = wrote
            elif op[0] == "gcstart":
                before = listing()
                pids["g"] = _invocation(root, ctl, "g", ["gc", "-v"], 200, "gc", os.path.join(d, "res_g.json"))
                w = _wait(os.path.join(ctl, "paused_rm"), proc_pid=pids["g"])
                if w == "timeout":
                    return {"_error": "%s: gc neither paused nor finished" % name}
                events.append({"e": "GcScan"})
                res["gc_before"] = before
            elif op[0] == "gcfinish":
                open(os.path.join(ctl, "go_rm"), "w").close()
                if "g" in pids:
                    try:
                        os.waitpid(pids.pop("g"), 0)
                    except ChildProcessError:
                        pass
                after = listing()
                for v in sorted(set(res.get("gc_before", {})) - set(after)):
                    events.append({"e": "GcDelete", "v": v})
                res["g"] = result("g")
        rows = sorted(r["ts"] for r in P.read_index(root) if r["task"] == "//:a")
        dirs = listing()
        events.append({"e": "Final", "rows": rows, "dirs": [[t, w] for t, w in sorted(dirs.items())]})
        return {"name": name, "events": events, "results": {str(k): {"status": v.get("status"), "kind": v.get("stderr_kind"),
                                                                     "stderr": (v.get("stderr") or "")[-300:]} for k, v in res.items()
                                                            if isinstance(v, dict) and "status" in v}}
    finally:
        for p in pids.values():
            try:
                os.kill(p, 9)
                os.waitpid(p, 0)
            except OSError:
                pass
        shutil.rmtree(d, ignore_errors=True)


INVS = ["DirExclusive", "NoIntegrityError", "RecordedHasDir", "GcSparesRunning"]
TEXT = {
    "DirExclusive": "two `cond run` invocations that plan the same experiment within the same second choose the same version (the "
                    "version and the does-the-directory-exist probe are decided at planning time, the directory is made at launch "
                    "time with exist_ok) and both executions write into one output directory",
    "NoIntegrityError": "... and the one that finishes second dies with an uncaught sqlite3.IntegrityError (UNIQUE constraint on "
                        "task_identifier, timestamp) although its task exited 0",
    "RecordedHasDir": "`cond gc` started while an experiment is running lists the running execution's (not yet recorded) directory as "
                      "garbage; the execution finishes and is recorded, gc then deletes the directory: a recorded version without output",
    "GcSparesRunning": "`cond gc` deletes the output directory of an execution that is still in progress; the task then fails to write "
                       "its results",
}


def main(tier):
    rep = C.Report(PROP, tier, "model_checking")
    RC.warm()
    leads = []
    for inv in INVS:
        with open(os.path.join(C.SPECS, "_gen_Store2_%s.cfg" % inv), "w") as f:
            f.write("CONSTANT Runs = {1, 2}\nCONSTANT WithGc = TRUE\nCONSTANT Clocks = {100, 101}\nSPECIFICATION Spec\n"
                    "INVARIANT %s\nCHECK_DEADLOCK TRUE\n" % inv)
        mc = C.run_tlc("Store2.tla", cfg="_gen_Store2_%s.cfg" % inv, workers=4, timeout=600)
        if mc.error or mc.timed_out:
            rep.machinery("Store2.tla (%s) failed: %s" % (inv, mc.error or "timeout"))
            return rep.finish()
        leads += sorted(set(mc.violated))
    # a world without the races: different seconds, no gc -> everything holds (the invariants are not vacuous)
    with open(os.path.join(C.SPECS, "_gen_Store2_calm.cfg"), "w") as f:
        f.write("CONSTANT Runs = {1, 2}\nCONSTANT WithGc = FALSE\nCONSTANT Clocks = {100}\nSPECIFICATION Spec\n"
                "INVARIANT RecordedHasDir\nINVARIANT GcSparesRunning\nCHECK_DEADLOCK TRUE\n")
    mc = C.run_tlc("Store2.tla", cfg="_gen_Store2_calm.cfg", workers=4, timeout=600)
    if mc.error or mc.timed_out or mc.violated:
        rep.machinery("Store2.tla (calm) failed: %s %s" % (mc.error, mc.violated))
        return rep.finish()
    rep.cov.update({"states": mc.distinct, "transitions": mc.generated, "model_invariants_violated": leads})
    reps = 1 if tier == "quick" else 10
    jobs = [(n, ops) for _ in range(reps) for n, ops in sorted(SCHEDULES.items())]
    res = C.fork_map(execute, jobs, timeout=300, nproc=4)
    traces = []
    for i, (job, r) in enumerate(zip(jobs, res)):
        if r is None or "_error" in r or "_timeout" in r:
            rep.machinery("schedule %s failed: %s" % (job[0], str(r)[:500]))
            continue
        traces.append({"id": i, "events": r["events"]})
    if rep.machinery_errors:
        return rep.finish()
    # binding test: the same executions with one recorded field corrupted must be REJECTED by the trace specification
    corrupted = []
    for t in traces:
        c1 = json.loads(json.dumps(t))
        c1["id"] = 1000 + t["id"]
        for e in c1["events"]:
            if e["e"] == "Plan":
                e["ts"] += 7
                break
        c2 = json.loads(json.dumps(t))
        c2["id"] = 2000 + t["id"]
        c2["events"][-1]["rows"] = c2["events"][-1]["rows"] + [999]
        corrupted += [c1, c2]
    with C.Scratch("x02") as d:
        f = os.path.join(d, "t.ndjson")
        with open(f, "w") as fh:
            for t in traces + corrupted:
                fh.write(json.dumps(t) + "\n")
        jr = C.run_tlc("Store2_Trace.tla", cfg="Store2_Trace.cfg", workers=1, timeout=900, env={"TRACE_FILE": f}, dfs=True)
    verdict = {v["id"]: (v["reached"], v["n"]) for v in C.tlc_printed_json(jr) if isinstance(v, dict) and "id" in v}
    if jr.error or len(verdict) != len(traces) + len(corrupted):
        rep.machinery("Store2_Trace failed: %s" % (jr.error or jr.output[-1500:]))
        return rep.finish()
    not_rejected = [c["id"] for c in corrupted if verdict[c["id"]][0] == verdict[c["id"]][1]]
    if not_rejected:
        rep.machinery("the trace specification accepted corrupted traces %s: it does not bind" % not_rejected[:5])
        return rep.finish()
    rep.cov["corrupted_traces_rejected"] = len(corrupted)
    accepted = 0
    found = {}
    for t in traces:
        name = jobs[t["id"]][0]
        reached, n = verdict[t["id"]]
        if reached == n:
            accepted += 1
        else:
            rep.drift.append("schedule %s is not a behaviour of Store2.tla: %d/%d events matched, next %s" % (
                name, reached, n, t["events"][reached] if reached < n else None))
        fin = t["events"][-1]
        if any(len(w) > 1 for _t, w in fin["dirs"]):
            found.setdefault("DirExclusive", set()).add(name)
        if any(e["e"] == "Record" and e["outcome"] == "integrity_error" for e in t["events"]):
            found.setdefault("NoIntegrityError", set()).add(name)
        if set(fin["rows"]) - {d_[0] for d_ in fin["dirs"]}:
            found.setdefault("RecordedHasDir", set()).add(name)
        if any(e["e"] == "Write" and not e["ok"] for e in t["events"]):
            found.setdefault("GcSparesRunning", set()).add(name)
    for lead in leads:
        if lead not in found:
            rep.drift.append("Store2.tla violates %s but no enforced schedule shows it on the real code" % lead)
    for k in INVS:
        if k in found:
            print("FINDING (outside the listed properties) %s: %s [schedules: %s]" % (k, TEXT[k], ", ".join(sorted(found[k]))))
    rep.cov.update({"evaluations": len(traces), "traces_validated_against_impl": len(traces), "traces_accepted_by_Store2_tla": accepted,
                    "distinct_nontrivial": len(SCHEDULES), "schedules": sorted(SCHEDULES), "findings": {k: sorted(v) for k, v in found.items()},
                    "rule": "each schedule is enforced on real concurrent `cond` processes (hold points: mkdir of a version directory, the "
                            "task's write, gc's first deletion); the observed events and final state are validated against Store2.tla"})
    if traces:
        rep.add_sample({"schedule": jobs[traces[1]["id"]][0], "events": traces[1]["events"]})
    return rep.finish()


def replay(path):
    print("X02 has no replay files (findings name their schedule)")
    return 2


def selftest():
    return 0
