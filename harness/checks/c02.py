"""C02 - each needed task runs exactly once per invocation; nothing else runs.

Layer 1: Planner.tla model-checked over every ordered-deps graph (N tasks) x kinds x cache states x modes.
Layer 2: TLC exports every instance with the declarative expectation and the predicted plan; the real
         `cond run` is executed on each (FakeKernel, sequential completion) and
Layer 3: judged by RunObs (TLC) on the C02 clauses; divergence from the predicted plan = MODEL-DRIFT.
"""
import json
import os
import random
import sys

from .. import common as C
from .. import runcheck as RC

PROP = "C02"
CLAUSES = {"OnlyNeeded", "AtMostOnce", "CachedIsReusable", "CachedOnce", "NotAlsoStarted", "TotalIsNeeded",
           "CounterMonotone", "RowsOnlyForExit0"}


def planner_cfg(name, n, kinds, modes, fixed, invariants):
    path = os.path.join(C.SPECS, name)
    with open(path, "w") as f:
        f.write("CONSTANT N = %d\n" % n)
        f.write("CONSTANT Kinds = {%s}\n" % ", ".join('"%s"' % k for k in kinds))
        f.write("CONSTANT Modes = {%s}\n" % ", ".join('"%s"' % k for k in modes))
        f.write("CONSTANT FixedD1 = %s\n" % ("TRUE" if fixed else "FALSE"))
        f.write("SPECIFICATION PSpec\n")
        for inv in invariants:
            f.write("INVARIANT %s\n" % inv)
        f.write("CHECK_DEADLOCK FALSE\n")
    return name


PLANNER_INVS = ["InvExactlyOnce", "InvCachedExact", "InvTotalIsNeeded", "InvEdgesExact", "InvInitialExact",
                "InvFreshIds", "InvSnapshotExact"]
MODEL_FIXED_D1 = True  # the planner model follows the repaired code (known_findings.json: D1 fixed)


def export_instances(n, kinds, modes, timeout=600):
    cfg = planner_cfg("_gen_Planner_export.cfg", n, kinds, modes, MODEL_FIXED_D1, ["Export"])
    res = C.run_tlc("Planner.tla", cfg=cfg, workers=1, timeout=timeout)
    if res.error or res.timed_out:
        raise C.MachineryError("planner export failed: %s" % (res.error or "timeout"))
    return C.tlc_printed_json(res), res


def is_lead(inst):
    """The model's plan disagrees with the declarative expectation on this instance."""
    tasks = [o["task"] for o in inst["ops"]]
    return sorted(tasks) != sorted(inst["needed"]) or sorted(inst["cached"]) != sorted(inst["frontier"])


def observed_plan(trace):
    run, cached, spawns, total = [], [], {}, None
    for e in trace["events"]:
        if e["e"] in ("Running", "Skipping"):
            run.append(e["t"])
            total = e["n"]
        elif e["e"] == "Cached":
            cached.append(e["t"])
        elif e["e"] == "Spawn":
            spawns.setdefault(e["t"], []).append((e["ts"], [tuple(d) for d in e["deps"]]))
    return run, cached, spawns, total


def drift_against_model(inst, trace):
    run, cached, spawns, total = observed_plan(trace)
    ops = inst["ops"]
    if sorted(run) != sorted(o["task"] for o in ops):
        return "run-lines %s vs model ops %s" % (sorted(run), sorted(o["task"] for o in ops))
    if cached != inst["cached"]:
        return "cached sequence %s vs model %s" % (cached, inst["cached"])
    if ops and total is not None and total != inst["numToRun"]:
        return "progress total %s vs model %s" % (total, inst["numToRun"])
    for o in ops:
        if inst["g"]["kind"][o["task"] - 1] in ("exp", "cmd"):
            sp = spawns.get(o["task"], [])
            want = (o["ver"], [tuple(d) for d in o["deps"]])
            if want not in sp:
                return "spawn of t%d: observed %s vs model %s" % (o["task"], sp, want)
    return None


def main(tier):
    rep = C.Report(PROP, tier, "model_checking")
    rng = random.Random(rep.seed)
    RC.warm()
    n = 3
    kinds = ["exp", "cmd", "group"] if tier == "quick" else ["exp", "cmd", "group", "combine"]
    modes = ["default", "again", "atleast"]
    # ---- layer 1: model check
    cfg = planner_cfg("_gen_Planner_mc.cfg", n, kinds, modes, MODEL_FIXED_D1, PLANNER_INVS)
    mc = C.run_tlc("Planner.tla", cfg=cfg, timeout=1200, continue_=True)
    if mc.error or mc.timed_out:
        rep.machinery("TLC Planner model check failed: %s" % (mc.error or "timeout"))
        return rep.finish()
    states, trans = mc.distinct, mc.generated
    if tier == "thorough":
        cfg4 = planner_cfg("_gen_Planner_mc4.cfg", 4, ["exp", "cmd", "group"], ["default", "again"],
                           MODEL_FIXED_D1, PLANNER_INVS)
        mc4 = C.run_tlc("Planner.tla", cfg=cfg4, timeout=2400, continue_=True)
        if mc4.error:
            rep.machinery("TLC Planner N=4 failed: %s" % mc4.error)
            return rep.finish()
        states += mc4.distinct
        trans += mc4.generated
        rep.cov["n4"] = {"distinct": mc4.distinct, "violated": sorted(set(mc4.violated)), "timed_out": mc4.timed_out}
        mc.violated += mc4.violated
    # ---- layer 2: spec -> code
    insts, ex = export_instances(n, kinds, modes)
    leads = [i for i in insts if is_lead(i)]
    rest = [i for i in insts if not is_lead(i)]
    rng.shuffle(rest)
    rng.shuffle(leads)
    budget = 700 if tier == "quick" else len(rest)
    chosen = leads[: (60 if tier == "quick" else 2000)] + rest[:budget]
    with C.Scratch("c02git") as gd:
        tpl = RC.make_git_template(os.path.join(gd, "tpl"))
        RC.set_git_template(tpl)
        scns = []
        for k, inst in enumerate(chosen):
            g = dict(inst["g"])
            g["mustRun"] = inst["mustRun"]
            jobs = 1 + (k % 2)
            # (every 5th instance without --at-least is run in a git-managed project all the same: cached results then carry
            # commits, and uncached experiments may carry history that must not be used)
            scn = RC.scenario_from_graph(g, placement=k, jobs=jobs, git_tpl=tpl,
                                         sched={"mode": "script", "choices": []}, force_git=(k % 5 == 1 and not g.get("again")))
            if k % 4 in (1, 2) and k % 3 == 0:
                # the same bare name in several packages (//p:u1, //:u1) - unless a combine() would then list two
                # dependencies with the same NAME: that definition is refused when it is loaded (C15 / C18), it is no instance
                # of the planner's model any more
                trial = RC.rename_local(json.loads(json.dumps(scn)))
                if not any(t["kind"] == "combine" and len({d.rsplit(":", 1)[1] for d in t["deps"]}) < len(t["deps"])
                           for t in trial["project"]["tasks"]):
                    RC.rename_local(scn)
            scns.append(scn)
        # the same instances with one dependency listed TWICE under two spellings (":x" and "//pkg:x", or with a trailing
        # slash): such a definition must be rejected, and in any case no task may run twice
        ndup = 150 if tier == "quick" else 3000
        dup_from = len(scns)
        for k, inst in enumerate(chosen[:ndup * 4]):
            if len(scns) - dup_from >= ndup:
                break
            g = dict(inst["g"])
            cand = [t for t in range(1, g["n"] + 1) if g["deps"][t - 1] and t in inst["needed"]]
            if not cand:
                continue
            g["mustRun"] = inst["mustRun"]
            scn = RC.scenario_from_graph(g, placement=3, jobs=1 + (k % 2), git_tpl=tpl, sched={"mode": "script", "choices": []})
            t = cand[k % len(cand)]
            task = scn["project"]["tasks"][t - 1]
            d0 = task["deps"][k % len(task["deps"])]
            alt = ("//p:" + d0[1:]) if d0.startswith(":") else (d0.replace("//p:", "//p/:") if k % 2 else ":" + d0.split(":")[1])
            task["deps"] = task["deps"] + [alt]
            scn["dup_spelling"] = True
            chosen.append(inst)
            scns.append(scn)
        # COND files are Python: ONE list object may be handed to several definitions (`common = [":t1"]` passed as deps= to a
        # chained run_experiment_group and to other tasks, before or after it). The project below is the documented expansion
        # (that is what the monitor is configured with); the files on disk use the shared variable and the group macro.
        for v in range(6):
            ninst = 2 + v % 2
            names = ["t%d" % (2 + i) for i in range(ninst)]
            gi, oi, ti = 2 + ninst, 3 + ninst, 4 + ninst
            deps = [[]] + [[1] + ([1 + i] if i else []) for i in range(ninst)] + [list(range(2, 2 + ninst)), [1], [oi]]
            kind = ["cmd"] + ["exp"] * ninst + ["combine", "cmd" if v % 3 else "exp", "group"]
            g = {"n": ti, "target": ti if v % 2 else oi, "deps": deps, "kind": kind, "par": [False] * ti, "cachedTs": [0] * ti,
                 "stale": [False] * ti, "again": False, "atLeast": False, "now": 1000, "lastTs0": 0}
            scn = RC.scenario_from_graph(g, placement=0, jobs=1 + v % 2, sched={"mode": "script", "choices": []})
            insts_src = ", ".join("ExperimentInstance(name=%r)" % nm for nm in names)
            grp = "run_experiment_group(name='t%d', run='true', experiments=[%s], chain_experiments=True, deps=common)\n" % (gi, insts_src)
            other = "%s(name='t%d', run='true', deps=common)\n" % ("run_command" if v % 3 else "run_experiment", oi)
            src = "common = [':t1']\nrun_command(name='t1', run='true')\n"
            src += (other + grp) if v >= 3 else (grp + other)
            src += "group(name='t%d', deps=[':t%d'])\n" % (ti, oi)
            scn["project"]["raw_cond"] = {"": src}
            scn["dup_spelling"] = True          # no Planner.tla prediction for these (judged by the monitor only)
            need = sorted({g["target"], oi, 1})
            chosen.append({"g": g, "needed": need, "frontier": [], "mustRun": [True] * ti})
            scns.append(scn)
        # ONE COND file serving two packages through a symbolic link (p/q/COND -> ../COND): ":n" means //p/q:n there, and only the
        # tasks of the closure of the target may run
        for v in range(4):
            g = {"n": 4, "target": 4 if v % 2 else 2, "deps": [[], [1], [], [3]], "kind": ["cmd", "exp" if v > 1 else "cmd", "cmd", "exp" if v > 1 else "cmd"],
                 "par": [False] * 4, "cachedTs": [0] * 4, "stale": [False] * 4, "again": False, "atLeast": False, "now": 1000, "lastTs0": 0}
            scn = RC.scenario_from_graph(g, placement=0, jobs=1, sched={"mode": "script", "choices": []})
            kind2 = "run_experiment" if v > 1 else "run_command"
            scn["project"]["tasks"] = [
                {"pkg": "p", "name": "n", "kind": "run_command", "deps": [], "run": "true"},
                {"pkg": "p", "name": "top", "kind": kind2, "deps": [":n"], "run": "true"},
                {"pkg": "p/q", "name": "n", "kind": "run_command", "deps": [], "run": "true"},
                {"pkg": "p/q", "name": "top", "kind": kind2, "deps": [":n"], "run": "true"}]
            scn["argv"] = ["run", "//p/q:top" if v % 2 else "//p:top"] + scn["argv"][2:]
            scn["cond_links"] = {"p/q": "p"}
            scn["dup_spelling"] = True
            chosen.append({"g": g, "needed": [3, 4] if v % 2 else [1, 2], "frontier": [], "mustRun": [True] * 4})
            scns.append(scn)
        results = RC.run_batch(scns)
    verdicts, traces, errs, tr = RC.judge_batch(scns, results)
    for i, r in errs:
        rep.machinery("scenario %d failed: %s" % (i, str(r)[:400]))
    by_id = {t["id"]: t for t in traces}
    real_viol_on_lead = 0
    nontrivial = set()
    for i, clauses in verdicts.items():
        bad = sorted(set(clauses) & CLAUSES)
        inst = chosen[i]
        if len(inst["needed"]) >= 2 or inst["frontier"]:
            nontrivial.add(C.scenario_hash(inst["g"]))
        if bad:
            if i < len(leads):
                real_viol_on_lead += 1
            shared = any(sum(1 for dl in inst["g"]["deps"] if d in dl) > 1 for d in range(1, n + 1))
            rep.violation({"clause": bad[0], "clauses": bad, "shared_dep": shared,
                           "mode": "again" if inst["g"]["again"] else ("atleast" if inst["g"]["atLeast"] else "default")},
                          scns[i], "graph deps=%s kind=%s cachedTs=%s: %s" % (
                              inst["g"]["deps"], inst["g"]["kind"], inst["g"]["cachedTs"], bad),
                          extra={"trace": by_id[i]})
        elif not scns[i].get("dup_spelling"):
            d = drift_against_model(inst, by_id[i])
            if d:
                rep.drift.append("instance deps=%s kind=%s: %s" % (inst["g"]["deps"], inst["g"]["kind"], d))
    if mc.violated and real_viol_on_lead == 0:
        rep.drift.append("Planner.tla violates %s but no lead reproduced on the real code" % sorted(set(mc.violated)))
    rep.cov.update({
        "states": states, "transitions": trans,
        "traces_validated_against_impl": len(verdicts),
        "evaluations": len(scns), "distinct_nontrivial": len(nontrivial),
        "rule": "instances = every DAG on %d tasks with every ordering of every dependency list x kinds %s x cache "
                "flags x modes %s x lastTs0 (exported by TLC from Planner.tla); non-trivial = >=2 needed tasks or a "
                "cached frontier; distinct by graph hash" % (n, kinds, modes),
        "instances_total": len(insts), "model_leads": len(leads),
        "model_invariants_violated": sorted(set(mc.violated)),
        "exhaustive": tier == "thorough",
        "judge_states": tr.generated if tr else 0,
    })
    for t in traces[:2]:
        rep.add_sample({"cfg": {k: t["cfg"][k] for k in ("deps", "kind", "reusable", "jobs")},
                        "events": [[e["e"], e.get("t")] for e in t["events"]]})
    rep.assumptions += ["FakeKernel (harness/fakekernel.py) models fork/waitpid/SIGCHLD faithfully",
                        "task commands are never executed (process layer interposed); children exit 0"]
    return rep.finish()


def replay(path):
    from .. import replaytool
    return replaytool.replay_run(path, CLAUSES)


def selftest():
    from .. import replaytool
    return replaytool.selftest_run(PROP, CLAUSES)
