"""C15 - COND definitions: well-formed accepted, malformed rejected cleanly.

CondSchema.tla states acceptance over abstract definitions (constructor x value class of every documented parameter),
include() classes and Python-failure classes; TLC enumerates the product (43 440 definitions).  Each abstract definition
is concretised into COND source (several Python representatives per class), run through the real `cond run --check`
(exit status, ERROR-vs-Traceback, file named, nothing created under cond-out) and, for a sample, `cond run` under the
FakeKernel (nothing spawned on rejection); TLC judges the observed table (CondSchema_Trace.tla).
"""
import json
import os
import random
import shutil
import sys
import tempfile

from .. import common as C
from .. import fakekernel as FK
from .. import project as P
from .. import runcheck as RC
from . import c14

PROP = "C15"
CLAUSES = {"AcceptIffSchema", "CleanDiagnostic", "NothingExecuted", "CheckCreatesNoOutput"}

REPR = {
    "name": {"valid": ["'t'"], "badgrammar": ["'a b'", "''", "'x/y'", "'n:m'", "'t\\u00e4sk'", "'t.1'",
                            # code points that case-fold / normalise to ASCII letters (Kelvin sign, long s, dotted / dotless i),
                            # full-width and superscript digits: not in the documented alphabet
                            "'\\u212a'", "'ta\\u017fk'", "'\\u0130d'", "'d\\u0131'", "'\\uff41b'", "'x\\u00b2'", "'\\u0661'"],
             "wrongtype": ["5", "None", "['t']", "True"]},
    "run": {"str": ["'true'"], "wrongtype": ["5", "['true']", "None", "True"]},
    "par": {"bool": ["True", "False"], "wrongtype": ["1", "'yes'", "None", "0"]},
    "args": {"primitives": ["[1, 's', 2.5, True]", "[]", "['only']"], "notlist": ["'abc'", "(1, 2)", "{'a': 1}", "5"],
             "nonprimitive": ["[[1]]", "[None]", "[{'a': 1}]", "[1, (2,)]", "[__import__('fractions').Fraction(1, 3)]",
                              "[__import__('decimal').Decimal('1.5')]", "[b'bytes']", "[1+2j]"]},
    "opts": {"primitives": ["{'k': 1, 's': 'v', 'b': False}", "{}", "{'f': 1.5}"], "notdict": ["[('k', 1)]", "'k=1'", "5"],
             "nonstringkey": ["{1: 'a'}", "{None: 1}", "{('a',): 1}"], "nonprimitive": ["{'k': [1]}", "{'k': None}", "{'k': {'a': 1}}", "{'k': __import__('fractions').Fraction(1, 3)}", "{'k': b'x'}"]},
    "deps": {"valid": ["['//:x', '//a:x2']", "['//a:x']", "['//a/:x2']"], "relative": ["[':x']", "[':x', '//a:x2']"],
             "notlist": ["'//:x'", "('//:x',)", "{'//:x'}"], "nonstr": ["[5]", "[None]", "['//:x', 7]"],
             "malformed": ["['x']", "['//a:b:c']", "['//a b:x']", "['']", "['//a:']", "[':']", "['a:x']", "['//a:\\u212a']", "['//\\u017f:x']",
                       "[':\\u0131']"],
             "duplicate": ["['//:x', ':x']", "['//a:x2', '//a:x2']", "['//a:x2', '//a/:x2']"],
             "samename": ["['//a:x', '//b:x']", "['//:x', '//b:x']"]},
}
HELPERS = "run_command(name='x', run='true')\nrun_command(name='ok', run='true')\n"
A_COND = "run_command(name='x', run='true')\nrun_command(name='x2', run='true')\n"
B_COND = "run_command(name='x', run='true')\n"


def concretise(d, k):
    """-> (root COND source, target identifier)"""
    parts = []
    order = ["name", "run", "par", "args", "opts", "deps"]
    key = {"name": "name", "run": "run", "par": "parallelizable", "args": "args", "opts": "options", "deps": "deps"}
    for p in order:
        cls = d[p]
        if cls == "absent":
            continue
        if p == "name" and cls == "duplicate":
            parts.append(("name", "'t'"))
            continue
        vals = REPR[p][cls]
        parts.append((key[p], vals[k % len(vals)]))
    if d["extra"] == "unknownparam":
        parts.append((["foo", "cmd", "dep", "Name"][k % 4], "1"))
    if (d["ctor"] == "run_experiment" and d["extra"] == "none" and d["name"] in ("valid", "badgrammar", "wrongtype")
            and d["run"] != "absent" and k % 4 == 3):
        # the same definition written as an instance of run_experiment_group() (documented to be exactly this run_experiment
        # call, C19): `experiments` may be any iterable, also a one-shot one; a well-formed instance comes first
        pd = dict(parts)
        ip = ["name=%s" % pd["name"]] + ["%s=%s" % (q, pd[q]) for q in ("args", "options", "parallelizable") if q in pd]
        lst = "[ExperimentInstance(name='w0'), ExperimentInstance(%s)]" % ", ".join(ip)
        container = [lst, "(e for e in %s)" % lst, "iter(%s)" % lst, "tuple(%s)" % lst][(k // 4) % 4]
        gp = ["name='grp'", "run=%s" % pd["run"], "experiments=%s" % container] + (["deps=%s" % pd["deps"]] if "deps" in pd else [])
        src = HELPERS + "run_experiment_group(%s)\n" % ", ".join(gp)
        return src, ("//:t" if d["name"] == "valid" else "//:ok")
    if d["extra"] == "positional" and parts:
        call = "%s(%s)" % (d["ctor"], ", ".join([parts[0][1]] + ["%s=%s" % p for p in parts[1:]]))
    elif d["extra"] == "positional":
        call = "%s(7)" % d["ctor"]
    else:
        call = "%s(%s)" % (d["ctor"], ", ".join("%s=%s" % p for p in parts))
    src = HELPERS + call + "\n"
    if d["name"] == "duplicate":
        dup_ctor = ["run_command", "group"][k % 2]
        src += ("run_command(name='t', run='true')\n" if dup_ctor == "run_command" else "group(name='t')\n")
    target = "//:t" if d["name"] in ("valid", "duplicate") else "//:ok"
    return src, target


INCLUDES = {
    "ok": ("include('vals.cond')\nrun_command(name='t', run=CMD)\n", {"vals.cond": "CMD = 'true'\n"}),
    "okprojectrelative": ("include('//lib/vals.cond')\nrun_command(name='t', run=CMD)\n", {"lib/vals.cond": "CMD = 'true'\n"}),
    "wrongext": ("include('vals.py')\nrun_command(name='t', run='true')\n", {"vals.py": "CMD = 'true'\n"}),
    "missing": ("include('nothere.cond')\nrun_command(name='t', run='true')\n", {}),
    "outside": ("include('../outside.cond')\nrun_command(name='t', run='true')\n", {"../outside.cond": "CMD = 'true'\n"}),
    "outsideviasymlink": ("include('link.cond')\nrun_command(name='t', run='true')\n", {"../outside.cond": "CMD = 'true'\n",
                                                                                      "link.cond": ("symlink", "../outside.cond")}),
    "definestask": ("include('vals.cond')\nrun_command(name='t', run='true')\n", {"vals.cond": "run_command(name='z', run='true')\n"}),
    # ... through every constructor and through the standard-library macro (which defines tasks itself)
    # well-formed projects in which several combine() definitions are materialised by one command: dependency names are
    # unique PER combine, not per process
    "ok_two_combines": ("group(name='t', deps=['//m1:figs', '//m2:figs'])\n",
                        {"m1/COND": "run_command(name='data', run='true')\ncombine(name='figs', deps=[':data'])\n",
                         "m2/COND": "run_command(name='data', run='true')\ncombine(name='figs', deps=[':data'])\n"}),
    "ok_combine_twice": ("run_command(name='d1', run='true')\ncombine(name='results', deps=[':d1'])\n"
                         "combine(name='report', deps=[':results', ':d1x'])\nrun_command(name='d1x', run='true')\n"
                         "group(name='t', deps=[':results', ':report'])\n", {}),
    # well-formed definitions at SCALE: a pipeline generated by a loop, a long chained sweep - requested from the far end
    "ok_long_chain": ("for i in range(1200):\n    run_command(name='c%d' % i, run='true', deps=[':c%d' % (i - 1)] if i else [])\n"
                      "group(name='t', deps=[':c1199'])\n", {}),
    "ok_long_group": ("run_experiment_group(name='sweep', run='true', chain_experiments=True,\n"
                      "    experiments=[ExperimentInstance(name='s%d' % i, args=[i]) for i in range(1100)])\n"
                      "group(name='t', deps=[':s1099'])\n", {}),
    "definestask_exp": ("include('vals.cond')\nrun_command(name='t', run='true')\n", {"vals.cond": "run_experiment(name='z', run='true')\n"}),
    "definestask_group": ("include('vals.cond')\nrun_command(name='t', run='true')\n", {"vals.cond": "group(name='z')\n"}),
    "definestask_combine": ("include('vals.cond')\nrun_command(name='t', run='true')\n", {"vals.cond": "combine(name='z')\n"}),
    "definestask_macro": ("include('vals.cond')\nrun_command(name='t', run='true')\n",
                          {"vals.cond": "run_experiment_group(name='z', run='true', experiments=[ExperimentInstance(name='z1')])\n"}),
    "includes": ("include('vals.cond')\nrun_command(name='t', run='true')\n", {"vals.cond": "include('more.cond')\n",
                                                                             "more.cond": "X = 1\n"}),
    "raises": ("include('vals.cond')\nrun_command(name='t', run='true')\n", {"vals.cond": "raise ValueError('boom')\n"}),
    "syntaxerror": ("include('vals.cond')\nrun_command(name='t', run='true')\n", {"vals.cond": "def broken(:\n"}),
}
PYFAIL = {
    "raise_value": "raise ValueError('boom')\n", "raise_zerodiv": "x = 1 / 0\n", "raise_key": "{}['nokey']\n",
    "raise_custom": "class E(Exception):\n    pass\nraise E()\n", "syntax": "run_command(name='t' run='true')\n",
    "name": "run_commandd(name='t', run='true')\n", "recursion": "def f():\n    return f()\nf()\n",
    "syntax_dup_kwarg": "run_command(name='t', run='true', name='u')\n", "syntax_toplevel_return": "return 5\n",
    "syntax_dup_param": "def f(a, a):\n    pass\n", "syntax_break": "break\n", "syntax_nonlocal": "nonlocal x\n",
    "indentation": "if True:\nx = 1\n", "tabs": "if True:\n\tx = 1\n        y = 2\n", "nullbyte": "x = 1\x00\n",
    "notutf8": None, "condisdir": None, "typeerror_call": "run_command('t', 'true')\n", "assertion": "assert False, 'no'\n",
    "importerror": "import definitely_not_a_module_xyz\n", "oserror": "open('/nonexistent/file/xyz')\n",
}


def reset(root):
    for name in os.listdir(root):
        p = os.path.join(root, name)
        shutil.rmtree(p) if os.path.isdir(p) and not os.path.islink(p) else os.unlink(p)
    out = os.path.join(os.path.dirname(root), "outside.cond")
    if os.path.lexists(out):
        os.unlink(out)
    with open(os.path.join(root, "cond_config.toml"), "w") as f:
        f.write("disable_git = true\n")
    for pkg, src in (("a", A_COND), ("b", B_COND)):
        os.makedirs(os.path.join(root, pkg))
        with open(os.path.join(root, pkg, "COND"), "w") as f:
            f.write(src)


def outputs_created(root):
    out = os.path.join(root, "cond-out")
    if not os.path.isdir(out):
        return 0
    return len([x for x in os.listdir(out) if not x.startswith("version_index")])


def observe_check(root, target):
    code, err = c14.mini_cli(["run", "--check", target], root)
    from ..fakekernel import ANSI
    err = ANSI.sub("", err)
    kind = "Traceback" if ("Traceback (most recent call last)" in err or "UNCAUGHT" in err) else ("ERROR" if "ERROR:" in err else "none")
    return {"accepted": code == 0, "exit": code if isinstance(code, int) else 70, "stderr": kind,
            "namesFile": ("COND" in err or ".cond" in err), "spawns": 0, "outputsCreated": outputs_created(root),
            "checkOnly": True, "err": err[-300:]}


def chunk_worker(job):
    items, offset = job
    d = tempfile.mkdtemp(prefix="cvc15_", dir=C.scratch_root())
    rows = []
    try:
        root = os.path.join(d, "p")
        os.makedirs(root)
        for j, it in enumerate(items):
            k = offset + j
            reset(root)
            if it["kind"] == "def":
                src, target = concretise(it["def"], k)
                with open(os.path.join(root, "COND"), "w") as f:
                    f.write(src)
            elif it["kind"] == "include":
                src, files = INCLUDES[it["cls"]]
                target = "//:t"
                base = root
                if it.get("sibling"):
                    # another COND file, loaded first (or second) in the same invocation, includes a VALID file under the
                    # same relative path string; the file under test lives in package c
                    base = os.path.join(root, "c")
                    os.makedirs(base)
                    os.makedirs(os.path.join(root, "s"))
                    with open(os.path.join(root, "s", "vals.cond"), "w") as f:
                        f.write("CMD = 'true'\n")
                    with open(os.path.join(root, "s", "link.cond"), "w") as f:
                        f.write("CMD = 'true'\n")
                    with open(os.path.join(root, "s", "nothere.cond"), "w") as f:
                        f.write("CMD = 'true'\n")
                    with open(os.path.join(root, "s", "vals.py"), "w") as f:
                        f.write("CMD = 'true'\n")
                    firstline = src.splitlines()[0]
                    with open(os.path.join(root, "s", "COND"), "w") as f:
                        f.write(firstline + "\nrun_command(name='t', run='true')\n")
                    order = ["//s:t", "//c:t"] if it["sibling"] == 1 else ["//c:t", "//s:t"]
                    with open(os.path.join(root, "COND"), "w") as f:
                        f.write("group(name='t', deps=%r)\n" % order)
                with open(os.path.join(base, "COND"), "w") as f:
                    f.write(src)
                for rel, content in files.items():
                    if it.get("sibling") and rel.startswith("lib/"):
                        p = os.path.normpath(os.path.join(root, rel))
                    else:
                        p = os.path.normpath(os.path.join(base, rel))
                    if False:
                        pass
                    p = p
                    os.makedirs(os.path.dirname(p), exist_ok=True)
                    if isinstance(content, tuple):
                        os.symlink(os.path.normpath(os.path.join(base, content[1])), p)
                    else:
                        with open(p, "w") as f:
                            f.write(content)
            else:
                target = "//:t"
                cls = it["cls"]
                if cls == "condisdir":
                    os.makedirs(os.path.join(root, "COND"))
                elif cls == "notutf8":
                    with open(os.path.join(root, "COND"), "wb") as f:
                        f.write(b"run_command(name='t', run='tr\xff\xfeue')\n")
                else:
                    with open(os.path.join(root, "COND"), "w") as f:
                        f.write(PYFAIL[cls] + "run_command(name='t', run='true')\n")
                src = PYFAIL.get(cls)
            o = observe_check(root, target)
            o.update({"id": k, "kind": it["kind"], "def": it.get("def", {}), "cls": it.get("cls", ""), "target": target,
                      "src": (src or "")[-400:] if it["kind"] != "include" else INCLUDES[it["cls"]][0]})
            rows.append(o)
        return rows
    finally:
        os.chdir("/")
        shutil.rmtree(d, ignore_errors=True)


def fk_worker(job):
    it, k = job
    d = tempfile.mkdtemp(prefix="cvc15f_", dir=C.scratch_root())
    try:
        root = os.path.join(d, "p")
        os.makedirs(root)
        reset(root)
        src, target = concretise(it["def"], k)
        with open(os.path.join(root, "COND"), "w") as f:
            f.write(src)
        res = FK.run_cond({"argv": ["run", target], "sched": {"seed": k}}, root)
        spawns = sum(1 for e in res["events"] if e["e"] == "Spawn")
        st = res["status"]
        kind = [e for e in res["events"] if e["e"] == "Return"][0]["stderr_kind"]
        return {"id": 10 ** 6 + k, "kind": "def", "def": it["def"], "cls": "", "accepted": st == 0, "exit": st if isinstance(st, int) else 70,
                "stderr": kind, "namesFile": "COND" in res["stderr"], "spawns": spawns if st != 0 else 0,
                "outputsCreated": outputs_created(root) if st != 0 else 0, "checkOnly": False, "err": res["stderr"][-300:],
                "target": target, "src": src[-400:]}
    finally:
        shutil.rmtree(d, ignore_errors=True)


def judge(rows, timeout=1800):
    keys = ("id", "kind", "def", "cls", "accepted", "exit", "stderr", "namesFile", "spawns", "outputsCreated", "checkOnly")
    blank = {"ctor": "group", "name": "valid", "run": "absent", "par": "absent", "args": "absent", "opts": "absent",
             "deps": "absent", "extra": "none"}
    with C.Scratch("sjudge15") as d:
        f = os.path.join(d, "rows.ndjson")
        with open(f, "w") as fh:
            for r in rows:
                o = {k: r[k] for k in keys}
                if not o["def"]:
                    o["def"] = blank
                fh.write(json.dumps(o) + "\n")
        res = C.run_tlc("CondSchema_Trace.tla", cfg="CondSchema_Trace.cfg", workers=1, timeout=timeout, env={"TRACE_FILE": f})
    out = {}
    for v in C.tlc_printed_json(res):
        if isinstance(v, dict) and "id" in v:
            out[v["id"]] = v
    if res.error or res.timed_out or len(out) != len(rows):
        raise C.MachineryError("CondSchema judge failed (%d/%d): %s" % (len(out), len(rows), res.error or res.output[-1500:]))
    return out, res


def main(tier):
    rep = C.Report(PROP, tier, "exploration")
    rng = random.Random(rep.seed + 15)
    RC.warm()
    with open(os.path.join(C.SPECS, "_gen_CondSchema_export.cfg"), "w") as f:
        f.write("SPECIFICATION Spec\nINVARIANT Sane\nINVARIANT Export\nCHECK_DEADLOCK FALSE\n")
    ex = C.run_tlc("CondSchema.tla", cfg="_gen_CondSchema_export.cfg", workers=1, timeout=900)
    if ex.error or ex.timed_out or ex.violated:
        rep.machinery("CondSchema.tla failed: %s %s" % (ex.violated, ex.error))
        return rep.finish()
    defs = C.tlc_printed_json(ex)
    rng.shuffle(defs)
    acc = [x for x in defs if x["accept"]]
    # every single-fault definition (exactly one bad class) is always included: that is where acceptance flips
    def nbad(x):
        d = x["def"]
        good = {"name": {"valid"}, "run": {"str", "absent"}, "par": {"absent", "bool"}, "args": {"absent", "primitives"},
                "opts": {"absent", "primitives"}, "deps": {"absent", "valid", "relative", "samename"}, "extra": {"none"}}
        return sum(1 for p, g in good.items() if d[p] not in g)
    single = [x for x in defs if not x["accept"] and nbad(x) <= 1]
    multi = [x for x in defs if not x["accept"] and nbad(x) > 1]
    if tier == "quick":
        chosen = acc[:400] + single + multi[:300]
    else:
        chosen = defs
    items = [{"kind": "def", "def": x["def"]} for x in chosen]
    reps = 2 if tier == "quick" else 6
    for _ in range(reps):
        items += [{"kind": "include", "cls": c} for c in INCLUDES] + [{"kind": "pyfail", "cls": c} for c in PYFAIL]
        items += [{"kind": "include", "cls": c, "sibling": sb} for c in INCLUDES if not c.startswith("ok_") for sb in (1, 2)
                  if c not in ("outside", "outsideviasymlink", "okprojectrelative")]
    chunk = max(40, len(items) // (C.NPROC * 3))
    rows = []
    for r in C.fork_map(chunk_worker, [(items[i:i + chunk], i) for i in range(0, len(items), chunk)], timeout=3000):
        if r is None or isinstance(r, dict):
            rep.machinery("chunk failed: %s" % str(r)[:800])
            continue
        rows += r
    nfk = 200 if tier == "quick" else 3000
    fitems = [(it, k) for k, it in enumerate(items) if it["kind"] == "def"][:nfk]
    for r in C.fork_map(fk_worker, fitems, timeout=600):
        if r is None or "_error" in r or "_timeout" in r:
            rep.machinery("fake-kernel run failed: %s" % str(r)[:500])
        else:
            rows.append(r)
    verdicts, tr = judge(rows)
    nontriv = set()
    for r in rows:
        v = verdicts[r["id"]]
        nontriv.add(C.scenario_hash([r["kind"], r["def"], r["cls"], r["src"]]))
        bad = sorted(set(v["viol"]) & CLAUSES)
        if bad:
            rep.violation({"clause": bad[0], "kind": r["kind"], "cls": r["cls"], "ctor": r["def"].get("ctor"),
                           "expected_accept": v["expected"]},
                          {"row": {k: r[k] for k in ("kind", "def", "cls", "src", "target")}},
                          "%s %s: expected accept=%s, observed accept=%s exit=%s stderr=%s namesFile=%s spawns=%s new outputs=%s | %s | %s" % (
                              r["kind"], r["cls"] or json.dumps(r["def"]), v["expected"], r["accepted"], r["exit"], r["stderr"],
                              r["namesFile"], r["spawns"], r["outputsCreated"], r["src"].replace("\n", " ; ")[-200:],
                              r["err"].replace("\n", " | ")[-200:]))
    rep.cov.update({
        "evaluations": len(rows), "distinct_nontrivial": len(nontriv), "abstract_definitions_total": len(defs),
        "traces_validated_against_impl": len(rows), "include_and_python_failure_cases": reps * (len(INCLUDES) + len(PYFAIL)),
        "rule": "abstract definitions exported by TLC from CondSchema.tla (constructor x class of name/run/parallelizable/args/"
                "options/deps/extra), concretised with rotating Python representatives per class; %s; include() classes %s and "
                "Python failure classes %s; non-trivial = distinct (definition, concrete source)" % (
                    "quick: 400 accepted + all single-fault + 300 multi-fault definitions" if tier == "quick" else "all 43 440",
                    sorted(INCLUDES), sorted(PYFAIL)),
    })
    rep.add_sample({k: rows[0][k] for k in ("def", "src", "accepted", "exit", "stderr")})
    rep.assumptions += ["names that cannot be targeted (invalid / missing / wrong type) are checked through another task of the "
                        "same COND file (Conductor validates them when the file is read)",
                        "BaseException subclasses that are not errors (SystemExit, KeyboardInterrupt) are outside the statement"]
    return rep.finish()


def replay(path):
    with open(path) as f:
        body = json.load(f)
    print(body.get("text"))
    return main("quick")
