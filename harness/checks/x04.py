"""X04 (extra, not a listed property) - the explorer's read-only views are projections of the abstract state.

Explorer.tla defines, for every project of N tasks (dependencies on defined tasks, on themselves, on an identifier nobody
defines), what /api/1/task_graph answers - refused with TaskNotFound / CyclicDependency when an undefined dependency / a cycle
exists ANYWHERE in the project (not only below a target, as in C14), otherwise the root tasks - and TLC checks over all
1,048,576 projects of four tasks that the root list is useful (EveryTaskUnderARoot, RootsAreTop, NoRootMeansCycle).  All 4,096
projects of three tasks are exported and each is built for real (COND files in up to three packages, four task types, a real
git index because the explorer only sees tracked COND files) in several layouts; the real route functions of
conductor.explorer.routes are called on a real Context and compared with the model: verdict, the task list with types and
declared dependencies in order, the roots.  /api/1/results/all_versions is compared with the rows planted in the index (each
recorded version exactly once, under its task, tasks in display order).  Both views must leave the project byte-identical.
A disagreement is MODEL-DRIFT.  Evidence: /verif/extras/X04.json.
"""
import json
import os
import random
import shutil
import tempfile

from .. import common as C
from .. import clirunner as CLI
from .. import project as P
from .. import runcheck as RC

PROP = "X04"
KINDS = ["run_command", "run_experiment", "group", "combine"]
PKGS = ["", "sub", "deep/er"]
NAMES = {1: "t1", 2: "t2", 3: "t3"}


def layout(v):
    """variant -> (kind of task i, package of task i)"""
    rng = random.Random(v)
    kinds = {i: KINDS[(i + v) % 4] for i in (1, 2, 3)}
    pkgs = {i: PKGS[rng.randrange(3)] if v != 2 else "" for i in (1, 2, 3)}
    return kinds, pkgs


def ident(pkgs, i):
    return "//%s:%s" % (pkgs[i], NAMES[i]) if i else "//nowhere:ghost"


def _import_routes():
    """conductor.explorer.routes mounts the built web UI at import time; this checkout has no build (static -> a dangling
    symlink, and the module's own mkdir fallback fails on it).  The static mount is no part of the views: stub it."""
    import pathlib
    import fastapi.staticfiles as fs

    class NoStatic:
        def __init__(self, *a, **k):
            pass

        async def __call__(self, scope, receive, send):  # pragma: no cover
            return None
    fs.StaticFiles = NoStatic
    real_mkdir = pathlib.Path.mkdir

    def mkdir(self, *a, **k):
        if self.name == "static" and self.parent.name == "explorer":
            return None
        return real_mkdir(self, *a, **k)
    pathlib.Path.mkdir = mkdir
    try:
        import conductor.explorer.routes as R
    finally:
        pathlib.Path.mkdir = real_mkdir
    return R


def norm(i):
    """the explorer's models carry (path, name) with path "." for the root package; its `display` is //<path>/<name>"""
    return "//%s:%s" % ("" if i.path == "." else i.path, i.name)


def perform(job):
    case, v, seed = job
    deps = {i + 1: d for i, d in enumerate(case["deps"])}
    kinds, pkgs = layout(v)
    rng = random.Random(seed)
    d = tempfile.mkdtemp(prefix="cvx04_", dir=C.scratch_root())
    try:
        root = os.path.join(d, "p")
        os.makedirs(root)
        files = {}
        for i in (1, 2, 3):
            ds = ["//%s:%s" % (pkgs[j], NAMES[j]) if (j and (pkgs[j] != pkgs[i] or rng.random() < 0.5)) else
                  (":%s" % NAMES[j] if j else "//nowhere:ghost") for j in deps[i]]
            extra = ', run="true"' if kinds[i].startswith("run_") else ""
            files.setdefault(pkgs[i], []).append('%s(name="%s"%s, deps=%s)\n' % (kinds[i], NAMES[i], extra, json.dumps(ds)))
        for pkg, lines in files.items():
            os.makedirs(os.path.join(root, pkg), exist_ok=True)
            with open(os.path.join(root, pkg, "COND"), "w") as f:
                f.write("".join(lines))
        with open(os.path.join(root, "cond_config.toml"), "w") as f:
            f.write("")
        # an untracked COND file is invisible to the explorer
        os.makedirs(os.path.join(root, "untracked"))
        P.git(root, "init", "-q")
        P.git(root, "add", "-A")
        with open(os.path.join(root, "untracked", "COND"), "w") as f:
            f.write('run_command(name="u", run="true", deps=["//:t1"])\n')
        os.chdir(root)
        import conductor.errors.base as eb
        from conductor.context import Context
        from conductor.execution.version_index import Version
        from conductor.task_identifier import TaskIdentifier
        from fastapi import HTTPException
        R = _import_routes()
        ctx = Context.from_cwd()
        # recorded versions: of experiments of the project and of a task no COND file defines any more
        planted = []
        pool = [ident(pkgs, i) for i in (1, 2, 3) if kinds[i] == "run_experiment"] + ["//gone:old", "//:a-b_c"]
        for _ in range(rng.randrange(0, 7)):
            t = rng.choice(pool)
            ts = rng.randrange(1, 50)
            if any(p[0] == t and p[1] == ts for p in planted):
                continue
            commit = rng.choice([None, "a" * 40, "b" * 40])
            dirty = bool(commit) and rng.random() < 0.5
            ctx.version_index.insert_output_version(TaskIdentifier.from_str(t), Version(ts, commit, dirty))
            planted.append((t, ts, commit, dirty))
        ctx.version_index.commit_changes()
        seen = []
        real = eb.ConductorError.printable_message

        def printable_message(self):
            seen.append(type(self).__name__)
            return real(self)
        eb.ConductorError.printable_message = printable_message
        R.set_context(ctx)
        R.workspace.clear()
        before = CLI.snapshot_tree(root)
        out = {}
        try:
            g = R.get_task_graph()
            out["verdict"] = "ok"
            out["tasks"] = sorted([norm(t.identifier), t.task_type.value, [norm(x) for x in t.deps]] for t in g.tasks)
            out["roots"] = sorted(norm(x) for x in g.root_tasks)
            # asking again (the workspace caches the roots) gives the same answer
            g2 = R.get_task_graph()
            out["again_same"] = (sorted(x.display for x in g2.root_tasks) == sorted(x.display for x in g.root_tasks)
                                 and len(g2.tasks) == len(g.tasks))
        except HTTPException as e:
            out["verdict"] = seen[-1] if seen else "HTTP%s" % e.status_code
            out["status_code"] = e.status_code
        vs = R.get_all_versions()
        out["display_sorted"] = [r.identifier.display for r in vs] == sorted(r.identifier.display for r in vs)
        out["versions"] = [[norm(r.identifier), sorted([x.timestamp, x.commit_hash, x.has_uncommitted_changes] for x in r.versions)]
                           for r in vs]
        after = CLI.snapshot_tree(root)
        out["readonly"] = before == after
        if before != after:
            out["changed"] = sorted(k for k in set(before) | set(after) if before.get(k) != after.get(k))[:5]
        exp_tasks = sorted([ident(pkgs, i), kinds[i], None] for i in (1, 2, 3))
        out["expected_tasks"] = sorted([ident(pkgs, i), kinds[i], [ident(pkgs, j) for j in deps[i]]] for i in (1, 2, 3))
        out["expected_roots"] = sorted(ident(pkgs, i) for i in case["roots"])
        by = {}
        for t, ts, commit, dirty in planted:
            by.setdefault(t, []).append([ts, commit, dirty])
        out["expected_versions"] = [[t, sorted(v_, key=lambda x: x[0])] for t, v_ in sorted(by.items())]
        del exp_tasks
        return out
    finally:
        os.chdir("/")
        shutil.rmtree(d, ignore_errors=True)


def main(tier):
    rep = C.Report(PROP, tier, "model_checking")
    RC.warm()
    mc = C.run_tlc("Explorer.tla", cfg="Explorer_mc.cfg", workers=8, timeout=1200)
    if mc.error or mc.timed_out or mc.violated:
        rep.machinery("Explorer.tla failed: %s %s" % (mc.error or "timeout", mc.violated))
        return rep.finish()
    rep.cov.update({"states": mc.distinct, "transitions": mc.generated})
    ex = C.run_tlc("Explorer.tla", cfg="Explorer_export.cfg", workers=1, timeout=900)
    cases = [c for c in C.tlc_printed_json(ex) if isinstance(c, dict) and "deps" in c]
    if ex.error or len(cases) != 4096:
        rep.machinery("Explorer.tla export failed: %s (%d cases)" % (ex.error, len(cases)))
        return rep.finish()
    _import_routes()  # once, before forking (fastapi + pydantic take about a second to import)
    variants = [1] if tier == "quick" else list(range(6))
    jobs = [(c, v, rep.seed * 100003 + k * 8 + v) for k, c in enumerate(cases) for v in variants]
    res = C.fork_map(perform, jobs, timeout=120)
    agree, verdicts = 0, {}
    for (c, v, _s), r in zip(jobs, res):
        if r is None or "_error" in r or "_timeout" in r:
            rep.machinery("project %s layout %d failed: %s" % (c["deps"], v, str(r)[:600]))
            continue
        verdicts[r["verdict"]] = verdicts.get(r["verdict"], 0) + 1
        bad = []
        if r["verdict"] not in c["verdicts"]:
            bad.append("verdict %s, the model allows %s" % (r["verdict"], c["verdicts"]))
        if r["verdict"] == "ok":
            if r["tasks"] != r["expected_tasks"]:
                bad.append("tasks %s instead of %s" % (r["tasks"], r["expected_tasks"]))
            if r["roots"] != r["expected_roots"]:
                bad.append("roots %s instead of %s" % (r["roots"], r["expected_roots"]))
            if not r.get("again_same"):
                bad.append("a second request answers differently")
        elif r.get("status_code") != 400:
            bad.append("refused with HTTP %s" % r.get("status_code"))
        if sorted([t, sorted(v_, key=lambda x: x[0])] for t, v_ in r["versions"]) != sorted(
                [t, sorted(v_, key=lambda x: x[0])] for t, v_ in r["expected_versions"]):
            bad.append("all_versions %s instead of %s" % (r["versions"], r["expected_versions"]))
        if not r["display_sorted"]:
            bad.append("all_versions is not in display order")
        if not r["readonly"]:
            bad.append("the views changed the project: %s" % r.get("changed"))
        if bad:
            rep.drift.append("project deps=%s layout %d: %s" % (c["deps"], v, "; ".join(bad)))
        else:
            agree += 1
    if rep.machinery_errors:
        return rep.finish()
    rep.cov.update({"evaluations": len(jobs), "traces_validated_against_impl": len(jobs), "agreeing": agree,
                    "distinct_nontrivial": len(jobs), "exhaustive": True, "verdicts_observed": verdicts,
                    "rule": "every project of three tasks Explorer.tla enumerates is built for real (tracked COND files in up to three "
                            "packages, four task types) and the real route functions answer on a real Context; verdict, task list, "
                            "dependencies, roots and the version list are compared, and the project must be left byte-identical"})
    rep.add_sample({"deps": jobs[77][0]["deps"], "layout": jobs[77][1], "model": {"verdicts": jobs[77][0]["verdicts"], "roots": jobs[77][0]["roots"]}})
    return rep.finish()


def replay(path):
    print("X04 has no replay files (a disagreement names its project)")
    return 2


def selftest():
    return 0
