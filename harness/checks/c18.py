"""C18 - combine() exposes each dependency's output under its name.

StoreObs.CombineClauses: after a successful combine its output directory holds exactly one link per dependency with a
non-empty output, named after the dependency and resolving to the directory that a sibling task with the same
dependency list received in COND_DEPS in the same invocation; a foreign entry under a dependency's name makes the task
fail and is left untouched.  Real histories (first run, cached re-run, --again, failing dependency, planted conflicts,
nested packages, nested combine) are judged by TLC; the snapshot rule itself is Planner.tla's InvSnapshotExact (C07).
"""
import json
import os
import random
import shutil
import tempfile

from .. import clirunner as CLI
from .. import common as C
from .. import runcheck as RC
from .. import store as S

PROP = "C18"
CLAUSES = {"CombineLinksExact", "CombineEntriesAreLinks", "CombineConflictReported"}


def project(rng):
    cpkg = rng.choice(["", "pk", "pk/sub"])
    deps_pool = [("//:a", "run_experiment", ""), ("//pk:b", "run_experiment", "pk"), ("//pk/sub:c", "run_experiment", "pk/sub"),
                 ("//:cmd", "run_command", ""), ("//pk:quiet", "run_command", "pk"), ("//:grp", "group", ""),
                 ("//pk:inner", "combine", "pk"), ("//:fickle", "run_command", ""),
                 # names that look like scratch / backup names of OTHER dependencies (entry names share one directory)
                 ("//:a_tmp", "run_experiment", ""), ("//pk:cmd_old", "run_command", "pk"), ("//:a-new", "run_command", ""),
                 # packages in different places whose directories have the SAME leaf name
                 ("//m1/eval:ea", "run_experiment", "m1/eval"), ("//m2/eval:eb", "run_command", "m2/eval"), ("//pk/eval:ec", "run_experiment", "pk/eval")]
    tasks = []
    for ident, kind, pkg in deps_pool:
        name = ident.split(":")[1]
        if kind == "group":
            tasks.append(S.exp_task(pkg, name, deps=["//:a"], kind="group"))
        elif kind == "combine":
            tasks.append(S.exp_task(pkg, name, deps=["//:a", "//:cmd"], kind="combine"))
        elif name == "fickle":
            # writes output only once the history has switched it on: its output directory exists and is EMPTY after the
            # first invocation and non-empty after a later one (emptiness must be judged after the dependency ran)
            t = S.exp_task(pkg, name, kind="run_command")
            t["run"] = "bash fickle.sh"
            tasks.append(t)
        elif name == "quiet":
            t = S.exp_task(pkg, name, kind="run_command")
            t["run"] = "true"            # writes nothing: its output directory stays empty
            tasks.append(t)
        else:
            tasks.append(S.exp_task(pkg, name, deps=["//:a"] if name == "b" else [], kind=kind))
    k = rng.randrange(2, len(deps_pool) + 1)
    chosen = rng.sample([d[0] for d in deps_pool], k)
    if rng.random() < 0.12:
        # two DIFFERENT tasks with the same name in different packages: their entries would collide - such a combine is refused
        # when it is loaded (and if it ever were accepted, one entry could not stand for both outputs)
        tasks.append(S.exp_task("m2/eval", "ea", kind="run_command"))
        chosen = [c for c in chosen if c not in ("//m1/eval:ea", "//m2/eval:ea")]
        chosen.insert(rng.randrange(len(chosen) + 1), "//m1/eval:ea")
        chosen.insert(rng.randrange(len(chosen) + 1), "//m2/eval:ea")
    tasks.append(S.exp_task(cpkg, "comb", deps=chosen, kind="combine"))
    tasks.append(S.exp_task(cpkg, "peek", deps=chosen, kind="run_command"))
    tasks.append(S.exp_task("", "top", deps=["//%s:comb" % cpkg, "//%s:peek" % cpkg], kind="group"))
    files = {"fickle.sh": 'if [ -e "$CV_CTL/fickle_on" ]; then echo data > "$COND_OUT/data.txt"; fi\nexit 0\n'}
    return {"config": "disable_git = true\n", "tasks": tasks, "files": files}, cpkg, chosen


def observe(root, cpkg, chosen, seen):
    comb = os.path.join(root, "cond-out", cpkg, "comb.task")
    links = []
    if os.path.isdir(comb):
        for e in sorted(os.listdir(comb)):
            p = os.path.join(comb, e)
            links.append([e, os.path.relpath(os.path.realpath(p), os.path.realpath(root)), 1 if os.path.islink(p) else 0])
    spawns = S.read_spawns(root, seen)
    peek = [s for s in spawns if s["name"] == "peek"]
    deps = None
    if peek:
        deps = []
        for p in [x for x in peek[-1]["deps"].split(":") if x]:
            leaf = os.path.basename(p)
            name = leaf.split(".task")[0]
            ne = os.path.isdir(p) and bool(os.listdir(p))
            deps.append([name, os.path.relpath(os.path.realpath(p), os.path.realpath(root)), 1 if ne else 0])
    return links, deps


def worker(scn):
    d = tempfile.mkdtemp(prefix="cvc18_", dir=C.scratch_root())
    try:
        root = os.path.join(d, "p")
        commits = S.build_store_project(root, scn)
        if scn.get("condout_symlink"):
            # cond-out lives on another volume, deeper in the tree than the link that stands for it
            os.makedirs(os.path.join(d, "volumes", "scratch", "projects", "out"))
            if os.path.isdir(os.path.join(root, "cond-out")) and not os.path.islink(os.path.join(root, "cond-out")):
                shutil.rmtree(os.path.join(root, "cond-out"))
            os.symlink(os.path.join(d, "volumes", "scratch", "projects", "out"), os.path.join(root, "cond-out"))
        seen = set()
        ctl = os.path.join(root, ".ctl")
        out = []
        for st in scn["steps"]:
            if st["cmd"] == "plant":
                S.apply_plant(root, st["entries"])
                continue
            if st["cmd"] == "ctl":
                open(os.path.join(ctl, st["touch"]), "w").close()
                continue
            if st["cmd"] == "git":
                from .. import project as P
                P.git(root, "checkout", "-q", "-f", "--detach", commits[st["commit"]])
                continue
            for f in os.listdir(ctl):
                if f.startswith("exit_"):
                    os.unlink(os.path.join(ctl, f))
            for name, code in st.get("exits", {}).items():
                with open(os.path.join(ctl, "exit_" + name), "w") as f:
                    f.write(str(code))
            conflict = st.get("conflict")
            before = None
            if conflict:
                cp = os.path.join(root, conflict)
                before = CLI.subtree_digest(CLI.snapshot_tree(os.path.dirname(cp)), os.path.basename(cp))
            r = S.run_command(root, st["argv"], clock=st["clock"], cwd=st.get("cwd", ""))
            links, deps = observe(root, scn["cpkg"], scn["chosen"], seen)
            after = None
            if conflict:
                cp = os.path.join(root, conflict)
                after = CLI.subtree_digest(CLI.snapshot_tree(os.path.dirname(cp)), os.path.basename(cp))
            stt = r.get("status")
            out.append({"argv": st["argv"], "exit": stt if isinstance(stt, int) else 70, "links": links, "deps": deps,
                        "conflict": bool(conflict), "entryUnchanged": before == after, "stderr": (r.get("stderr") or "")[-400:],
                        "dep_failed": bool(st.get("exits"))})
        return out
    finally:
        shutil.rmtree(d, ignore_errors=True)


def scenario(rng, k):
    proj, cpkg, chosen = project(rng)
    if k % 3 == 2:
        # git project: the selected version of a dependency moves BACK to an older one when HEAD moves back
        proj["config"] = ""
        steps = [{"cmd": "git", "commit": 0},
                 {"cmd": "run", "argv": ["run", "//:top"], "clock": 100},
                 {"cmd": "git", "commit": 1},
                 {"cmd": "run", "argv": ["run", "//:top", rng.choice(["--again", "--this-commit"])], "clock": 200},
                 {"cmd": "git", "commit": 0},
                 {"cmd": "run", "argv": ["run", "//:top"], "clock": 300},
                 {"cmd": "git", "commit": 1},
                 {"cmd": "run", "argv": ["run", "//:top"], "clock": 400}]
        return {"project": proj, "cpkg": cpkg, "chosen": chosen, "steps": steps, "tag": k, "git": {"commits": 2}}
    steps = [{"cmd": "run", "argv": ["run", "//:top"], "clock": 100}]
    if "//:fickle" in chosen or rng.random() < 0.3:
        steps.append({"cmd": "ctl", "touch": "fickle_on"})
        steps.append({"cmd": "run", "argv": ["run", "//:top"], "clock": 150})
    r = rng.random()
    if r < 0.3:
        steps.append({"cmd": "run", "argv": ["run", "//:top"], "clock": 200})
    if r < 0.7:
        steps.append({"cmd": "run", "argv": ["run", "//:top", "--again"], "clock": 300, "cwd": rng.choice(["", "pk"])})
    if rng.random() < 0.3:
        steps.append({"cmd": "run", "argv": ["run", "//:top", "--again"], "clock": 400, "exits": {"a": 2}})
    if rng.random() < 0.4:
        nm = rng.choice(chosen).split(":")[1]
        twins = [c.split(":")[1] for c in chosen if any(c.split(":")[1] == o.split(":")[1] + sfx for o in chosen for sfx in ("_tmp", "_old", "-new"))]
        if twins and rng.random() < 0.7:
            nm = rng.choice(twins)
        entry = os.path.join("cond-out", cpkg, "comb.task", nm)
        kind = rng.choice(["file", "dir", "copy_of_target"])
        if kind == "copy_of_target":
            steps.append({"cmd": "plant", "entries": [{"path": entry, "kind": "copy_of_target"}]})
        else:
            steps.append({"cmd": "plant", "entries": [{"path": entry, "kind": "remove"},
                                                      {"path": entry, "kind": kind, "files": {"mine.txt": "user data"}, "content": "user"}]})
        # (a copy stays equal to its model only if the dependency is not executed again: cached experiments without --again)
        steps.append({"cmd": "run", "argv": ["run", "//:top"] + ([] if kind == "copy_of_target" and rng.random() < 0.7 else ["--again"]),
                      "clock": 500, "conflict": entry, "_nm": nm})
    return {"project": proj, "cpkg": cpkg, "chosen": chosen, "steps": steps, "tag": k, "condout_symlink": k % 5 == 4}


def main(tier):
    rep = C.Report(PROP, tier, "exploration")
    rng = random.Random(rep.seed + 18)
    RC.warm()
    n = 200 if tier == "quick" else 3000
    scns = [scenario(rng, k) for k in range(n)]
    res = C.fork_map(worker, scns, timeout=1200)
    traces = []
    for i, (scn, r) in enumerate(zip(scns, res)):
        if r is None or isinstance(r, dict):
            rep.machinery("history %d failed: %s" % (i, str(r)[:600]))
            continue
        I = S.Interner()
        steps = []
        for o in r:
            if o["deps"] is None and not o["conflict"]:
                continue   # the sibling did not run (a dependency failed): nothing to compare against
            # a conflict on a dependency whose output is empty / absent is not a conflict (no entry is made for it)
            conflict = o["conflict"]
            steps.append({"cmd": "combine", "exit": o["exit"], "crashed": False,
                          "before": {"rows": [], "vdirs": [], "tdirs": [], "misc": 0, "outside": 0},
                          "after": {"rows": [], "vdirs": [], "tdirs": [], "misc": 0, "outside": 0},
                          "links": [[I("n:" + l[0]), I("p:" + l[1]), l[2]] for l in o["links"]],
                          "deps": [[I("n:" + x[0]), I("p:" + x[1]), x[2]] for x in (o["deps"] or [])],
                          "conflict": conflict, "entryUnchanged": o["entryUnchanged"]})
        traces.append({"id": i, "graph": {"deps": [], "kind": [], "ident": []}, "steps": steps, "_map": [k for k, o in enumerate(r) if not (o["deps"] is None and not o["conflict"])]})
    verdicts, tr = S.judge([{k: v for k, v in t.items() if k != "_map"} for t in traces])
    nontriv = set()
    for t in traces:
        i = t["id"]
        nontriv.add(C.scenario_hash([scns[i]["chosen"], scns[i]["cpkg"], [o["exit"] for o in res[i]]]))
        for st, c in verdicts[i]:
            if c in CLAUSES:
                o = res[i][t["_map"][st - 1]]
                conflict_on_empty = False
                if o["conflict"]:
                    nm = [s for s in scns[i]["steps"] if s.get("conflict")][0].get("_nm")
                    conflict_on_empty = nm in ("quiet", "grp")
                if c == "CombineConflictReported" and conflict_on_empty:
                    continue   # nothing is linked for a dependency without output, so a foreign entry there is left alone
                rep.violation({"clause": c}, scns[i], "combine %s deps %s: links %s vs COND_DEPS of the sibling %s (exit %s) %s" % (
                    scns[i]["cpkg"] or "<root>", scns[i]["chosen"], o["links"], o["deps"], o["exit"], o["stderr"][-200:]))
    rep.cov.update({
        "evaluations": sum(len(t["steps"]) for t in traces), "distinct_nontrivial": len(nontriv),
        "traces_validated_against_impl": len(traces),
        "rule": "combine over a random subset (>=2) of {experiment x3 in nested packages, command, command with empty output, "
                "group, nested combine}, placed in one of 3 packages, with a sibling run_command listing the same dependencies; "
                "history = run ; [run] ; [run --again (from a package dir)] (every third history: a git project whose HEAD moves forth and back, so the selected versions move back to older ones) ; [--again with a failing dependency] ; [plant a "
                "file/dir under a dependency's name ; run --again]; distinct by (dependency set, package, exit vector)",
    })
    if traces and traces[0]["steps"]:
        rep.add_sample({"chosen": scns[traces[0]["id"]]["chosen"], "links": res[traces[0]["id"]][0]["links"],
                        "deps": res[traces[0]["id"]][0]["deps"]})
    return rep.finish()


def replay(path):
    with open(path) as f:
        body = json.load(f)
    RC.warm()
    r = C.fork_map(worker, [body["scenario"]], timeout=1200)[0]
    print(json.dumps(r, indent=1)[:3000])
    return 0
