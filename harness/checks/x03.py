"""X03 (extra, not a listed property) - what one `cond run` invocation decides before anything is executed.

Invocation.tla models the front end of cli/run.py::main (jobs count, project root, cond-out, cond_config.toml with the lazy
validation of disable_git, flag combinations, the git questions, identifier, loading, --check, commit resolution, planning)
as one action per statement group, in the order of the code.  TLC checks RefusedIsHarmless / CheckIsDry / NoProjectNoTrace /
RanRespectsFlags / CommitFlagNeverIgnored / termination over ALL 186,624 invocations and exports, for each, the predicted
outcome (which error class a user sees when several things are wrong at once) and effects (is cond-out created, does the index
file exist, has a task been started).  Each exported invocation is then performed for real (in-process `conductor.__main__`,
real git repositories, real task processes) and compared field by field: quick replays a covering sample of 2,500, thorough one of 30,000
(VERIF_X03_ALL=1: all of them).
A disagreement is MODEL-DRIFT.  What the model predicts and the code confirms beyond the listed properties is printed as
FINDING (exit status stays 0, nothing is written to known_findings.json).  Evidence: /verif/extras/X03.json.
"""
import json
import os
import random
import shutil
import tempfile

from .. import common as C
from .. import clirunner as CLI
from .. import project as P
from .. import runcheck as RC

PROP = "X03"

COND_ROOT = '''run_command(name="cmd", run="touch ran_cmd")
run_experiment(name="exp", run="touch ran_exp")
'''
TARGET = {"cmd": "//:cmd", "exp": "//:exp", "malformed": "//:not a name!", "missing_task": "//:nope",
          "missing_cond": "//absent:x", "bad_cond": "//bad:x"}
JOBS = {"none": [], "auto": ["-j"], "minus1": ["-j", "-1"], "zero": ["-j", "0"], "neg": ["-j", "-2"], "pos": ["-j", "2"]}
CONFIG = {"ok": "", "gitoff": "disable_git = true\n", "unparsable": "disable_git = = true\n", "badvalue": 'disable_git = "yes"\n'}
AT_LEAST = {"HEAD": "HEAD", "ancestor": "main~1", "anntag": "v1", "other": "other", "bogus": "no-such-rev"}


def build_templates(base):
    """One directory per git state; the project is <tpl>/w/p, a directory outside any project is <tpl>/w/outside."""
    out = {}
    for g in ("norepo", "empty", "ok"):
        t = os.path.join(base, "tpl_" + g)
        root = os.path.join(t, "w", "p")
        os.makedirs(os.path.join(root, "sub"))
        os.makedirs(os.path.join(root, "bad"))
        os.makedirs(os.path.join(t, "w", "outside"))
        with open(os.path.join(root, "COND"), "w") as f:
            f.write(COND_ROOT)
        with open(os.path.join(root, "sub", "COND"), "w") as f:
            f.write('run_command(name="s", run="true")\n')
        with open(os.path.join(root, "bad", "COND"), "w") as f:
            f.write('run_command(name="x", run="true"\n')
        with open(os.path.join(root, "cond_config.toml"), "w") as f:
            f.write("")
        with open(os.path.join(root, ".gitignore"), "w") as f:
            f.write("cond-out\nran_*\ncond_config.toml\n")
        if g != "norepo":
            P.git(root, "init", "-q")
        if g == "ok":
            P.git(root, "add", "-A")
            P.git(root, "commit", "-q", "-m", "c1")
            P.git(root, "tag", "-a", "v1", "-m", "annotated")
            P.git(root, "checkout", "-q", "-b", "other")
            with open(os.path.join(root, "o.txt"), "w") as f:
                f.write("o")
            P.git(root, "add", "-A")
            P.git(root, "commit", "-q", "-m", "c3")
            P.git(root, "checkout", "-q", "main")
            with open(os.path.join(root, "m.txt"), "w") as f:
                f.write("m")
            P.git(root, "add", "-A")
            P.git(root, "commit", "-q", "-m", "c2")
        out[g] = t
    return out


def argv_of(i):
    a = ["run", TARGET[i["target"]]] + JOBS[i["jobs"]]
    if i["again"]:
        a.append("--again")
    if i["thisCommit"]:
        a.append("--this-commit")
    if i["atLeast"] != "none":
        a += ["--at-least", AT_LEAST[i["atLeast"]]]
    if i["check"]:
        a.append("--check")
    return a


def perform(job):
    """Forked child: one real invocation; returns what Invocation.tla exports for it."""
    tpls, i = job
    d = tempfile.mkdtemp(prefix="cvx03_", dir=C.scratch_root())
    try:
        w = os.path.join(d, "w")
        shutil.copytree(os.path.join(tpls[i["git"]], "w"), w, symlinks=True)
        root = os.path.join(w, "p")
        with open(os.path.join(root, "cond_config.toml"), "w") as f:
            f.write(CONFIG[i["config"]])
        co = os.path.join(root, "cond-out")
        if i["root"] != "none":
            if i["condout"] == "dir":
                os.mkdir(co)
            elif i["condout"] == "file":
                with open(co, "w") as f:
                    f.write("not a directory\n")
        if i["root"] == "none":
            start, cwd = os.path.join(w, "outside"), ""
        else:
            start, cwd = root, ("" if i["root"] == "here" else "sub")
        # which ConductorError is reported: observed where cli_command asks for its message
        import conductor.errors.base as eb
        seen = []
        real = eb.ConductorError.printable_message

        def printable_message(self):
            seen.append(type(self).__name__)
            return real(self)
        eb.ConductorError.printable_message = printable_message
        r = CLI.run_cli(start, argv_of(i), cwd=cwd)
        if r["stderr_kind"] == "Traceback":
            last = [ln for ln in r["stderr"].strip().splitlines() if ln and not ln.startswith(" ")]
            outcome = "Traceback:" + (last[-1].split(":")[0] if last else "?")
        elif r["status"] == 0:
            outcome = "checked" if "Skipping execution because --check was set" in r["stderr"] else "ran"
        else:
            outcome = seen[-1] if seen else "exit%s" % r["status"]
        kind = "file" if os.path.isfile(co) else ("dir" if os.path.isdir(co) else "absent")
        index = os.path.isfile(os.path.join(co, "version_index.sqlite")) if kind == "dir" else False
        ran = sorted(n for n in os.listdir(root) if n.startswith("ran_")) + sorted(
            n for n in os.listdir(os.path.join(root, "sub")) if n.startswith("ran_"))
        rows = len(P.read_index(root)) if index else 0
        return {"outcome": outcome, "condout": kind, "index": index, "executed": bool(ran), "ran": ran, "rows": rows,
                "status": r["status"], "stderr": r["stderr"][-400:]}
    finally:
        shutil.rmtree(d, ignore_errors=True)


def key(i):
    return json.dumps(i, sort_keys=True)


def choose(cases, n, rng):
    """A covering sample: every (outcome, value of each input field) pair the model predicts, then random ones."""
    chosen, seen = {}, set()
    order = list(cases)
    rng.shuffle(order)
    for c in order:
        new = [(c["outcome"], f, str(v)) for f, v in c["inp"].items() if (c["outcome"], f, str(v)) not in seen]
        if new:
            seen.update(new)
            chosen[key(c["inp"])] = c
    for c in order:
        if len(chosen) >= n:
            break
        chosen.setdefault(key(c["inp"]), c)
    return list(chosen.values())


def main(tier):
    rep = C.Report(PROP, tier, "model_checking")
    RC.warm()
    mc = C.run_tlc("Invocation.tla", cfg="Invocation_mc.cfg", workers=8, timeout=1200)
    if mc.error or mc.timed_out or mc.violated:
        rep.machinery("Invocation.tla failed: %s %s" % (mc.error or "timeout", mc.violated))
        return rep.finish()
    rep.cov.update({"states": mc.distinct, "transitions": mc.generated})
    # the one internal error the model predicts is a lead: it must be the ONLY violation of NoTraceback's negation
    with open(os.path.join(C.SPECS, "_gen_Invocation_NoTraceback.cfg"), "w") as f:
        f.write("SPECIFICATION Spec\nINVARIANT NoTraceback\nCHECK_DEADLOCK TRUE\n")
    lead = C.run_tlc("Invocation.tla", cfg="_gen_Invocation_NoTraceback.cfg", workers=4, timeout=600)
    if lead.error or lead.timed_out:
        rep.machinery("Invocation.tla (NoTraceback) failed: %s" % (lead.error or "timeout"))
        return rep.finish()
    ex = C.run_tlc("Invocation.tla", cfg="Invocation_export.cfg", workers=1, timeout=1800)
    cases = [c for c in C.tlc_printed_json(ex) if isinstance(c, dict) and "inp" in c]
    if ex.error or len(cases) != 186624:
        rep.machinery("Invocation.tla export failed: %s (%d cases)" % (ex.error, len(cases)))
        return rep.finish()
    rng = random.Random(rep.seed)
    # (all 186,624 take about 100 minutes on 16 cores; VERIF_X03_ALL=1 replays every one of them)
    todo = cases if os.environ.get("VERIF_X03_ALL") else choose(cases, 2500 if tier == "quick" else 30000, rng)
    with C.Scratch("x03") as d:
        tpls = build_templates(d)
        res = C.fork_map(perform, [(tpls, c["inp"]) for c in todo], timeout=120)
    agree, outcomes, found = 0, {}, {}
    for c, r in zip(todo, res):
        if r is None or "_error" in r or "_timeout" in r:
            rep.machinery("invocation %s failed: %s" % (argv_of(c["inp"]), str(r)[:400]))
            continue
        outcomes[r["outcome"]] = outcomes.get(r["outcome"], 0) + 1
        diff = [f for f in ("outcome", "condout", "index", "executed") if r[f] != c[f]]
        # beyond the four exported fields: what ran is what was asked for, and a refused / dry invocation records nothing
        if c["outcome"] == "ran" and r["ran"] != ["ran_%s" % c["inp"]["target"]]:
            diff.append("ran=%s" % r["ran"])
        if c["outcome"] != "ran" and r["rows"]:
            diff.append("rows=%d" % r["rows"])
        if c["outcome"] == "ran" and r["rows"] != (1 if c["inp"]["target"] == "exp" else 0):
            diff.append("rows=%d" % r["rows"])
        if diff:
            rep.drift.append("`cond %s` (%s): Invocation.tla predicts %s, the code gives %s [%s] %s" % (
                " ".join(argv_of(c["inp"])), {k: v for k, v in c["inp"].items() if k in ("root", "condout", "config", "git")},
                {f: c[f] for f in ("outcome", "condout", "index", "executed")},
                {f: r[f] for f in ("outcome", "condout", "index", "executed")}, ", ".join(diff), r["stderr"][-160:].replace("\n", " | ")))
        else:
            agree += 1
        if r["outcome"].startswith("Traceback:"):
            found.setdefault(r["outcome"], []).append(c["inp"])
    if rep.machinery_errors:
        return rep.finish()
    if "NoTraceback" in lead.violated and "Traceback:FileExistsError" not in found:
        rep.drift.append("Invocation.tla predicts a traceback when cond-out is a regular file; no real invocation showed it")
    for k, v in sorted(found.items()):
        print("FINDING (outside the listed properties) %s: %d invocations end with an internal error instead of `ERROR: ...`, all with "
              "cond-out being a regular file: Context._ensure_output_dir_exists calls mkdir(exist_ok=True) before is_dir(), and mkdir "
              "raises FileExistsError for a non-directory, so OutputDirTaken can never be reported (e.g. `cond %s`)" % (
                  k, len(v), " ".join(argv_of(v[0]))))
        if any(i["condout"] != "file" for i in v):
            rep.drift.append("an internal error without cond-out being a file: %s" % [i for i in v if i["condout"] != "file"][:2])
    rep.cov.update({"evaluations": len(todo), "traces_validated_against_impl": len(todo), "agreeing": agree,
                    "distinct_nontrivial": len(todo), "input_space": len(cases), "exhaustive": len(todo) == len(cases),
                    "outcomes_observed": outcomes,
                    "rule": "every terminal state of Invocation.tla is one real `cond run` invocation (real git repository, real task "
                            "processes); reported error class, cond-out kind, index file, started tasks and recorded rows are compared"})
    rep.add_sample({"argv": argv_of(todo[0]["inp"]), "inp": todo[0]["inp"], "predicted": todo[0]["outcome"]})
    return rep.finish()


def replay(path):
    print("X03 has no replay files (a disagreement names its invocation)")
    return 2


def selftest():
    return 0
