"""C01 - see DESIGN.md section 6 and harness/checks/runfamily.py."""
from . import runfamily as F

PROP = "C01"
CLAUSES = set("StartAfterDepsExit0 NoOverlapWithDependency".split())


def main(tier):
    return F.run_family(PROP, CLAUSES, tier, "deps", 600, 12000, dfs=False)


def replay(path):
    from .. import replaytool
    return replaytool.replay_run(path, CLAUSES)


def selftest():
    from .. import replaytool
    return replaytool.selftest_run(PROP, CLAUSES)
