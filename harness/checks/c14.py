"""C14 - dependency graphs are validated soundly before anything runs.

Loader.tla: the declarative verdict sets (cycle / notfound / dup / ok; project bad / roots) and the two DFS algorithms
of parsing/task_index.py as step functions; TLC checks algorithm-in-verdicts for EVERY digraph over 3 defined + 1
undefined task, every ordered dependency list (with repeated entries), every target.  The same instance space is
exported by TLC and each instance is built as real COND files (1-2 packages, every spelling of an identifier) and fed
to the real `cond run --check`, `cond run` (FakeKernel: nothing may be spawned on error) and
TaskIndex.load_all_known_tasks + validate_all_loaded_tasks; TLC judges the observed table (Loader_Trace.tla).
"""
import io
import json
import os
import random
import re
import shutil
import subprocess
import sys
import tempfile
import warnings

from .. import common as C
from .. import fakekernel as FK
from .. import project as P
from .. import runcheck as RC

PROP = "C14"
CLAUSES = {"RunSound", "CheckAgreesWithRun", "NothingRunsOnError", "ProjectRejectsBad", "ProjectRootsExact"}
ND = 3
CLASS = {"CyclicDependency": "cycle", "TaskNotFound": "notfound", "MissingCondFile": "notfound",
         "DuplicateDependency": "dup"}


def export(maxlen, dups, timeout=1800):
    cfgp = os.path.join(C.SPECS, "_gen_Loader_export.cfg")
    with open(cfgp, "w") as f:
        f.write("CONSTANT ND = %d\nCONSTANT MaxLen = %d\nCONSTANT Dups = %s\nSPECIFICATION Spec\nINVARIANT Export\n"
                "CHECK_DEADLOCK FALSE\n" % (ND, maxlen, "TRUE" if dups else "FALSE"))
    res = C.run_tlc("Loader.tla", cfg="_gen_Loader_export.cfg", workers=1, timeout=timeout)
    if res.error or res.timed_out:
        raise C.MachineryError("Loader export failed: %s" % (res.error or "timeout"))
    return C.tlc_printed_json(res)


def model_check(maxlen, dups, timeout=1800):
    cfgp = os.path.join(C.SPECS, "_gen_Loader_mc.cfg")
    with open(cfgp, "w") as f:
        f.write("CONSTANT ND = %d\nCONSTANT MaxLen = %d\nCONSTANT Dups = %s\nSPECIFICATION Spec\nINVARIANT RunSound\n"
                "INVARIANT ProjectSound\nCHECK_DEADLOCK FALSE\n" % (ND, maxlen, "TRUE" if dups else "FALSE"))
    return C.run_tlc("Loader.tla", cfg="_gen_Loader_mc.cfg", timeout=timeout)


def layout(k):
    """package of each defined task + how the undefined task is named"""
    pk = [["", "", ""], ["a", "b", "a"], ["a/x", "", "a"], ["p", "p", "p"]][k % 4]
    undef = ["//:nope", "//zz:nope", "//%s:nope" % pk[0], "//a/x/y:t1"][(k // 4) % 4]
    return pk, undef


def spell(pk, t, dep, undef, variant):
    if dep == ND + 1:
        if undef.startswith("//%s:" % pk[t - 1]) and variant % 2 == 0:
            return ":" + undef.split(":")[1]
        return undef
    same = pk[t - 1] == pk[dep - 1]
    if same and variant % 2 == 0:
        return ":t%d" % dep
    if variant % 3 == 0 and pk[dep - 1]:
        return "//%s/:t%d" % (pk[dep - 1], dep)      # trailing slash form accepted by the grammar
    return "//%s:t%d" % (pk[dep - 1], dep)


def build(root, inst, k):
    pk, undef = layout(k)
    for name in os.listdir(root):
        if name == ".git":
            continue
        p = os.path.join(root, name)
        shutil.rmtree(p) if os.path.isdir(p) and not os.path.islink(p) else os.unlink(p)
    with open(os.path.join(root, "cond_config.toml"), "w") as f:
        f.write("")
    by = {}
    for t in range(1, ND + 1):
        deps = inst["d"][t - 1]
        seen = {}
        sp = []
        for j, dep in enumerate(deps):
            v = k + t + j + seen.get(dep, 0)
            s = spell(pk, t, dep, undef, v)
            if dep in seen and s == sp[deps.index(dep)] and dep != ND + 1 and pk[t - 1] == pk[dep - 1]:
                s = "//%s:t%d" % (pk[dep - 1], dep) if s.startswith(":") else ":t%d" % dep
            seen[dep] = seen.get(dep, 0) + 1
            sp.append(s)
        kind = ["group", "run_command", "group"][(k + t) % 3]
        src = "%s(name=%r%s, deps=%r)\n" % (kind, "t%d" % t, ", run='true'" if kind == "run_command" else "", sp)
        by.setdefault(pk[t - 1], []).append(src)
    for p, srcs in by.items():
        d = os.path.join(root, p)
        os.makedirs(d, exist_ok=True)
        with open(os.path.join(d, "COND"), "w") as f:
            # COND files are Python: some import helpers of their own (pure-Python and C-extension modules that `cond` itself
            # has no reason to have loaded); what a file imports has no bearing on the verdict about the graph
            f.write((COND_IMPORTS[k % len(COND_IMPORTS)] if k % 4 == 1 else "") + "".join(srcs))
    return pk


COND_IMPORTS = ["import csv, cmath\n", "import bz2\nimport array, mmap\n", "from xml.parsers import expat\nimport unicodedata\n",
                "import lzma, csv\n", "import colorsys, cmath\n"]


NAMED_ND = 6


def named_projects():
    """Projects in which the SAME relative spelling (":x") is written in two packages and means a different task in each
    (a name reused across packages), visited in every order.  Six defined tasks:
      1 //a:first   2 //b:mid   3 //a:last   4 //b:x   5 //a:x (present or absent)   6 //:top
    -> list of (files {pkg: source}, d (index lists over 1..6, 7 = undefined), target index, identifier of the target)"""
    out = []
    import itertools
    for a_has_x in (False, True):
        for bx_back in (False, True):            # //b:x depends on //a:last (a cycle only if :x in a were to mean //b:x)
            for first_uses in (False, True):     # //a:first already uses ":x" (warms whatever the loader remembers)
                for order in itertools.permutations([1, 2, 3]):
                    ax = 5 if a_has_x else 7
                    d = [[ax] if first_uses else [], [4], [ax], [3] if bx_back else [], [], list(order)]
                    if not a_has_x:
                        d[4] = []
                    a_src = "run_command(name='first', run='true', deps=%r)\n" % ([":x"] if first_uses else [])
                    a_src += "run_command(name='last', run='true', deps=[':x'])\n"
                    if a_has_x:
                        a_src += "run_command(name='x', run='true')\n"
                    b_src = "run_command(name='mid', run='true', deps=[':x'])\nrun_command(name='x', run='true', deps=%r)\n" % (
                        ["//a:last"] if bx_back else [])
                    ident = {1: "//a:first", 2: "//b:mid", 3: "//a:last"}
                    top = "group(name='top', deps=%r)\n" % [ident[i] for i in order]
                    if not a_has_x:
                        # task 5 does not exist: keep it out of the graph (no edges to or from it)
                        pass
                    out.append(({"a": a_src, "b": b_src, "": top}, d, 6, "//:top"))
    return out


def named_worker(job):
    files, d_, t, tgt, k = job
    warnings.simplefilter("ignore")
    dd = tempfile.mkdtemp(prefix="cvc14n_", dir=C.scratch_root())
    try:
        root = os.path.join(dd, "p")
        os.makedirs(root)
        with open(os.path.join(root, "cond_config.toml"), "w") as f:
            f.write("disable_git = true\n")
        for pkg, src in files.items():
            os.makedirs(os.path.join(root, pkg), exist_ok=True)
            with open(os.path.join(root, pkg, "COND"), "w") as f:
                f.write(src)
        code, err = mini_cli(["--debug", "run", "--check", tgt], root)
        check = classify(code, err)
        if "HarnessTimeout" in err:
            check = "hang"
        return {"id": k, "d": d_, "t": t, "check": check, "run": check, "spawnsOnError": 0, "hasProj": False, "proj": "", "roots": [],
                "stderr": err[-300:] if check.startswith(("other", "crash")) else "", "files": files}
    finally:
        shutil.rmtree(dd, ignore_errors=True)


def deep_projects():
    """Long dependency chains (a sweep of chained experiments, a pipeline generated by a loop in the COND file): complete,
    dangling at the far end, closed into a cycle.  The declarative verdict of a chain does not depend on its length, so each is
    judged as the three-task chain it collapses to (t1 -> t2 -> t3 [-> undefined | -> t1])."""
    out = []
    for n in (400, 1200, 3000):
        for tail, d3 in (("[]", []), ("['//:nope']", [4]), ("[':c%d' % (N - 1)]", [1])):
            src = ("N = %d\nfor i in range(N):\n    run_command(name='c%%d' %% i, run='true', deps=[':c%%d' %% (i - 1)] if i else %s)\n" % (n, tail))
            out.append({"files": {"": src}, "d": [[2], [3], d3], "t": 1, "target": "//:c%d" % (n - 1), "n": n})
    return out


def deep_worker(job):
    spec, k = job
    files, d_, t, tgt, _k = spec["files"], spec["d"], spec["t"], spec["target"], k
    r = named_worker((files, d_, t, tgt, k))
    r["n"] = spec["n"]
    return r


def cached_projects():
    """Validation does not depend on what is cached: a project whose experiment //a:t2 already has a recorded version (with or
    without git, recorded at an older commit), a dependency //b:t3 of it defined in ANOTHER COND file, and what lies below that
    cached task being fine / dangling / cyclic; plain runs and runs with --this-commit / --at-least."""
    out = []
    for t3deps, d3 in (([], []), (["//b:nope"], [4]), (["//:t1"], [1])):
        for git in (False, True):
            for extra in ([], ["--this-commit"], ["--at-least", "@HEAD"], ["--again"]):
                if extra and extra[0] in ("--this-commit", "--at-least") and not git:
                    continue
                files = {"": "group(name='t1', deps=['//a:t2'])\n",
                         "a": "run_experiment(name='t2', run='true', deps=['//b:t3'])\n",
                         "b": "run_command(name='t3', run='true', deps=%r)\n" % t3deps}
                out.append({"files": files, "d": [[2], [3], d3], "t": 1, "git": git, "extra": extra})
    return out


def cached_worker(job):
    spec, k = job
    warnings.simplefilter("ignore")
    dd = tempfile.mkdtemp(prefix="cvc14c_", dir=C.scratch_root())
    try:
        root = os.path.join(dd, "p")
        os.makedirs(root)
        with open(os.path.join(root, "cond_config.toml"), "w") as f:
            f.write("" if spec["git"] else "disable_git = true\n")
        for pkg, src in spec["files"].items():
            os.makedirs(os.path.join(root, pkg), exist_ok=True)
            with open(os.path.join(root, pkg, "COND"), "w") as f:
                f.write(src)
        commit = None
        extra = list(spec["extra"])
        if spec["git"]:
            with open(os.path.join(root, ".gitignore"), "w") as f:
                f.write("cond-out/\n")
            P.git(root, "init", "-q")
            P.git(root, "add", "-A")
            P.git(root, "commit", "-q", "-m", "c0")
            commit = P.git(root, "rev-parse", "HEAD")
            with open(os.path.join(root, "notes.txt"), "w") as f:
                f.write("later\n")
            P.git(root, "add", "-A")
            P.git(root, "commit", "-q", "-m", "c1")
            extra = [P.git(root, "rev-parse", "HEAD") if a == "@HEAD" else a for a in extra]
        # the experiment already has a recorded version (from an earlier invocation, at the older commit)
        P.write_index(root, [{"task": "//a:t2", "ts": 50, "commit": commit, "dirty": False}])
        os.makedirs(os.path.join(root, "cond-out", "a", "t2.task.50"), exist_ok=True)
        code, err = mini_cli(["--debug", "run", "--check", "//:t1"] + extra, root)
        check = classify(code, err)
        if "HarnessTimeout" in err:
            check = "hang"
        res = C.fork_map(lambda _: FK.run_cond({"argv": ["--debug", "run", "//:t1"] + extra, "sched": {"seed": k}}, root), [0], nproc=1, timeout=60)[0]
        if res is None or "_error" in res or "_timeout" in res:
            run, spawns = "hang", 0
        else:
            st = res["status"]
            run = classify(st if isinstance(st, int) else 70, res["stderr"])
            spawns = sum(1 for e in res["events"] if e["e"] == "Spawn")
        return {"id": k, "d": spec["d"], "t": spec["t"], "check": check, "run": run, "spawnsOnError": spawns if run != "ok" else 0,
                "hasProj": False, "proj": "", "roots": [], "stderr": err[-300:] if check.startswith(("other", "crash")) else "", "spec": spec}
    finally:
        shutil.rmtree(dd, ignore_errors=True)


class HarnessTimeout(BaseException):
    pass


def _alarm(sig, frame):
    raise HarnessTimeout("the command did not return within 20 s")


def mini_cli(argv, cwd):
    """In-process cond for commands that spawn nothing (--check): returns (exit, stderr)."""
    import signal
    import conductor.__main__ as cm
    signal.signal(signal.SIGALRM, _alarm)
    signal.alarm(20)
    os.chdir(cwd)
    sys.argv = ["cond"] + argv
    so, se = sys.stdout, sys.stderr
    sys.stdout, sys.stderr = io.StringIO(), io.StringIO()
    code = 0
    try:
        try:
            cm.main()
        except SystemExit as e:
            code = e.code if isinstance(e.code, int) else (0 if e.code is None else 1)
        except BaseException as e:  # noqa
            code = 70
            sys.stderr.write("UNCAUGHT %s: %s" % (type(e).__name__, e))
        err = sys.stderr.getvalue()
    finally:
        import signal as _s
        _s.alarm(0)
        sys.stdout, sys.stderr = so, se
    return code, err


def classify(code, err):
    if code == 0:
        return "ok"
    m = re.findall(r"conductor\.errors\.\w+\.(\w+)", err)
    if m:
        return CLASS.get(m[-1], "other:" + m[-1])
    if "UNCAUGHT" in err:
        return "crash"
    return "other"


def chunk_worker(job):
    insts, offset, do_proj = job
    warnings.simplefilter("ignore")
    from conductor.parsing.task_index import TaskIndex
    from conductor.utils.git import Git
    from conductor.errors import ConductorError
    import pathlib
    d = tempfile.mkdtemp(prefix="cvc14_", dir=C.scratch_root())
    rows = []
    try:
        root = os.path.join(d, "p")
        os.makedirs(root)
        P.git(root, "init", "-q")
        hangs = 0
        for j, inst in enumerate(insts):
            if hangs >= 2:
                break      # the subject does not terminate on these graphs: two witnesses are enough, do not burn the budget
            k = offset + j
            pk = build(root, inst, k)
            tgt = "//%s:t%d" % (pk[inst["t"] - 1], inst["t"])
            code, err = mini_cli(["--debug", "run", "--check", tgt], root)
            check = classify(code, err)
            if "HarnessTimeout" in err:
                hangs += 1
                check = "hang"
            row = {"id": k, "d": inst["d"], "t": inst["t"], "check": check, "run": check, "spawnsOnError": 0,
                   "hasProj": False, "proj": "", "roots": [], "stderr": err[-300:] if check.startswith(("other", "crash")) else ""}
            if do_proj and inst["t"] == 1 and all(len(set(x)) == len(x) for x in inst["d"]):
                P.git(root, "add", "-A")
                ti = TaskIndex(pathlib.Path(root))
                os.chdir(root)
                try:
                    res = ti.load_all_known_tasks(Git(pathlib.Path(root)))
                    errs = [e for _, _, e in res if e is not None]
                    if errs:
                        row["proj"] = "loaderror:" + type(errs[0]).__name__
                    else:
                        roots = ti.validate_all_loaded_tasks()
                        row["proj"] = "ok"
                        row["roots"] = sorted(int(r.name[1:]) for r in roots)
                except ConductorError as e:
                    row["proj"] = CLASS.get(type(e).__name__, "other:" + type(e).__name__)
                if not row["proj"].startswith("loaderror"):
                    # the explorer validates the SAME index again on every refresh: the verdict of a later validation counts
                    # just as much as the first one (whatever the index remembers between calls must not change it)
                    for _again in range(2):
                        try:
                            roots = ti.validate_all_loaded_tasks()
                            row["proj"] = "ok"
                            row["roots"] = sorted(int(r.name[1:]) for r in roots)
                        except ConductorError as e:
                            cls = CLASS.get(type(e).__name__, "other:" + type(e).__name__)
                            if row["proj"] == "ok" or _again == 1:
                                row["proj"], row["roots"] = cls, []
                row["hasProj"] = True
            rows.append(row)
        return rows
    finally:
        os.chdir("/")
        shutil.rmtree(d, ignore_errors=True)


def fk_worker(job):
    """`cond run` (no --check) under the FakeKernel: exit status class and number of spawns."""
    inst, k = job
    d = tempfile.mkdtemp(prefix="cvc14f_", dir=C.scratch_root())
    try:
        root = os.path.join(d, "p")
        os.makedirs(root)
        pk = build(root, inst, k)
        tgt = "//%s:t%d" % (pk[inst["t"] - 1], inst["t"])
        res = FK.run_cond({"argv": ["--debug", "run", tgt], "sched": {"seed": k}}, root)
        spawns = sum(1 for e in res["events"] if e["e"] == "Spawn")
        lines = sum(1 for e in res["events"] if e["e"] == "Line" and e["kind"] == "running")
        st = res["status"]
        return {"k": k, "run": classify(st if isinstance(st, int) else 70, res["stderr"]), "spawns": spawns + lines}
    finally:
        shutil.rmtree(d, ignore_errors=True)


def judge(rows, timeout=1800, nd=ND):
    cfgname = "Loader_Trace.cfg"
    if nd != ND:
        cfgname = "_gen_Loader_Trace_%d.cfg" % nd
        with open(os.path.join(C.SPECS, cfgname), "w") as f:
            f.write("CONSTANT ND = %d\nCONSTANT MaxLen = 3\nCONSTANT Dups = TRUE\nSPECIFICATION TSpec\nINVARIANT Judge\nCHECK_DEADLOCK FALSE\n" % nd)
    with C.Scratch("ljudge") as d:
        f = os.path.join(d, "rows.ndjson")
        with open(f, "w") as fh:
            for r in rows:
                fh.write(json.dumps({k: r[k] for k in ("id", "d", "t", "check", "run", "spawnsOnError", "hasProj", "proj",
                                                       "roots")}) + "\n")
        res = C.run_tlc("Loader_Trace.tla", cfg=cfgname, workers=1, timeout=timeout, env={"TRACE_FILE": f})
    out = {}
    for v in C.tlc_printed_json(res):
        if isinstance(v, dict) and "id" in v:
            out[v["id"]] = v
    if res.error or res.timed_out or len(out) != len(rows):
        raise C.MachineryError("Loader judge failed (%d/%d): %s" % (len(out), len(rows), res.error or res.output[-1500:]))
    return out, res


def main(tier):
    rep = C.Report(PROP, tier, "model_checking")
    rng = random.Random(rep.seed + 14)
    RC.warm()
    maxlen = 2 if tier == "quick" else 3
    mc = model_check(maxlen, True)
    if mc.error or mc.timed_out or mc.violated:
        if mc.violated:
            rep.drift.append("Loader.tla: algorithmic half violates %s" % mc.violated)
        else:
            rep.machinery("TLC Loader model check failed: %s" % (mc.error or "timeout"))
            return rep.finish()
    insts = export(maxlen, True)
    rng.shuffle(insts)
    if tier == "quick":
        insts = insts[:28000]     # the whole MaxLen = 2 space (27 783 instances)
    elif len(insts) > 150000:
        insts = insts[:150000]
    chunk = max(50, len(insts) // (C.NPROC * 4))
    jobs = [(insts[i:i + chunk], i, True) for i in range(0, len(insts), chunk)]
    rows = []
    for r in C.fork_map(chunk_worker, jobs, timeout=3000):
        if r is None or isinstance(r, dict):
            rep.machinery("loader chunk failed: %s" % str(r)[:800])
            continue
        rows += r
    # `cond run` without --check on a sample: same verdict, and nothing is ever started on an error
    nfk = 300 if tier == "quick" else 4000
    by_id = {r["id"]: r for r in rows}
    sample = [r["id"] for r in rows if r["check"] != "ok"][:nfk // 2] + [r["id"] for r in rows if r["check"] == "ok"][:nfk // 2]
    if any(r["check"] == "hang" for r in rows):
        sample = sample[:16]
    fres = C.fork_map(fk_worker, [(insts[i], i) for i in sample], timeout=40)
    for i, fr in zip(sample, fres):
        if fr is not None and "_timeout" in fr:
            by_id[i]["run"] = "hang"       # the subject never returned: no justified verdict
            continue
        if fr is None or "_error" in fr:
            rep.machinery("fake-kernel run failed: %s" % str(fr)[:500])
            continue
        by_id[i]["run"] = fr["run"]
        by_id[i]["spawnsOnError"] = fr["spawns"] if fr["run"] != "ok" else 0
    verdicts, tr = judge(rows)
    nontriv = 0
    for r in rows:
        v = verdicts[r["id"]]
        if sum(len(x) for x in r["d"]) >= 2:
            nontriv += 1
        bad = sorted(set(v["viol"]) & CLAUSES)
        if bad:
            rep.violation({"clause": bad[0], "observed": r["check"], "proj": r["proj"]},
                          {"inst": {"d": r["d"], "t": r["t"]}, "k": r["id"]},
                          "graph deps=%s target=t%d: cond run --check reported %r, cond run %r, project validation %r roots %s %s" % (
                              r["d"], r["t"], r["check"], r["run"], r["proj"], r["roots"], r["stderr"]))
        elif v["model"] != r["check"]:
            rep.drift.append("deps=%s target=%d: code says %s, Loader.tla's algorithm says %s" % (r["d"], r["t"], r["check"], v["model"]))
    # names reused across packages (six tasks, judged by the same declarative verdicts with ND = 6)
    nps = named_projects()
    nrows = C.fork_map(named_worker, [(f_, d_, t_, tgt_, 10 ** 6 + i) for i, (f_, d_, t_, tgt_) in enumerate(nps)], timeout=120)
    nrows = [r for r in nrows if r is not None and "_error" not in r and "_timeout" not in r]
    if len(nrows) != len(nps):
        rep.machinery("named-project family: %d of %d projects observed" % (len(nrows), len(nps)))
    elif nrows:
        nverd, _ntr = judge(nrows, nd=NAMED_ND)
        for r in nrows:
            bad = sorted(set(nverd[r["id"]]["viol"]) & CLAUSES)
            if bad:
                rep.violation({"clause": bad[0], "observed": r["check"], "proj": "", "family": "names reused across packages"},
                              {"named": {"files": r["files"], "d": r["d"], "t": r["t"]}, "k": r["id"]},
                              "names reused across packages: %s ; graph deps=%s target=t%d: cond run --check reported %r %s" % (
                                  {k_: v_.replace("\n", " ; ") for k_, v_ in r["files"].items()}, r["d"], r["t"], r["check"], r["stderr"]))
        rep.cov["named_projects"] = len(nrows)
    # long chains (judged as the three-task chain they collapse to)
    dps = deep_projects()
    drows = C.fork_map(deep_worker, [(sp_, 3 * 10 ** 6 + i) for i, sp_ in enumerate(dps)], timeout=300)
    drows = [r for r in drows if r is not None and "_error" not in r and "_timeout" not in r]
    if len(drows) != len(dps):
        rep.machinery("deep-chain family: %d of %d projects observed" % (len(drows), len(dps)))
    elif drows:
        dverd, _dtr = judge(drows)
        for r in drows:
            bad = sorted(set(dverd[r["id"]]["viol"]) & CLAUSES)
            if bad:
                rep.violation({"clause": bad[0], "observed": r["check"], "proj": "", "family": "long chains"},
                              {"named": {"files": r["files"], "d": r["d"], "t": r["t"], "target": "//:c%d" % (r["n"] - 1), "nd": 3}, "k": r["id"]},
                              "a chain of %d tasks (%s): cond run --check reported %r %s" % (
                                  r["n"], {0: "complete", 4: "dangling at the far end", 1: "closed into a cycle"}[(r["d"][2] or [0])[0]],
                                  r["check"], r["stderr"]))
        rep.cov["deep_chain_projects"] = len(drows)
    # the same verdicts whatever is cached (recorded versions, older commits, --this-commit / --at-least / --again)
    cps = cached_projects()
    crows = C.fork_map(cached_worker, [(sp_, 2 * 10 ** 6 + i) for i, sp_ in enumerate(cps)], timeout=200)
    crows = [r for r in crows if r is not None and "_error" not in r and "_timeout" not in r]
    if len(crows) != len(cps):
        rep.machinery("cached-project family: %d of %d projects observed" % (len(crows), len(cps)))
    elif crows:
        cverd, _ctr = judge(crows)
        for r in crows:
            bad = sorted(set(cverd[r["id"]]["viol"]) & CLAUSES)
            if bad:
                rep.violation({"clause": bad[0], "observed": r["check"], "proj": "", "family": "cached results below the target"},
                              {"cached": r["spec"], "k": r["id"]},
                              "with a recorded version of //a:t2 (git=%s) and `%s`: //b:t3 deps=%s: cond run --check reported %r, cond run %r %s" % (
                                  r["spec"]["git"], " ".join(["run", "//:t1"] + r["spec"]["extra"]), r["spec"]["files"]["b"].strip(), r["check"], r["run"], r["stderr"]))
        rep.cov["cached_projects"] = len(crows)
    rep.cov.update({
        "states": mc.distinct, "transitions": mc.generated, "traces_validated_against_impl": len(rows),
        "evaluations": len(rows) + len(sample), "distinct_nontrivial": nontriv,
        "project_validations": sum(1 for r in rows if r["hasProj"]), "cond_run_under_fakekernel": len(sample),
        "verdict_histogram": {k: sum(1 for r in rows if r["check"] == k) for k in sorted({r["check"] for r in rows})},
        "rule": "instances = (digraph over 3 defined tasks + 1 undefined, dependency lists of length <= %d in every order, "
                "optionally one repeated entry, target) enumerated by TLC from Loader.tla%s; built as COND files in 1-2 packages "
                "with every identifier spelling; non-trivial = at least two edges" % (
                    maxlen, " (complete for lists of length <= 2)" if tier == "quick" else ""),
        "exhaustive": len(insts) < 150000,
    })
    rep.add_sample(rows[0])
    rep.add_sample(rows[1])
    return rep.finish()


def replay(path):
    with open(path) as f:
        body = json.load(f)
    RC.warm()
    if "cached" in body["scenario"]:
        rows = C.fork_map(cached_worker, [(body["scenario"]["cached"], body["scenario"]["k"])])
        verdicts, _ = judge(rows)
    elif "named" in body["scenario"]:
        nm = body["scenario"]["named"]
        rows = C.fork_map(named_worker, [(nm["files"], nm["d"], nm["t"], nm.get("target", "//:top"), body["scenario"]["k"])])
        verdicts, _ = judge(rows, nd=nm.get("nd", NAMED_ND))
    else:
        inst, k = body["scenario"]["inst"], body["scenario"]["k"]
        rows = C.fork_map(chunk_worker, [([inst], k, True)])[0]
        verdicts, _ = judge(rows)
    print(json.dumps(rows[0]), verdicts[rows[0]["id"]])
    bad = sorted(set(verdicts[rows[0]["id"]]["viol"]) & CLAUSES)
    if bad:
        print("VIOLATION property=%s replay=%s" % (PROP, path))
        return 1
    return 0
