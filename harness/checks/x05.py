"""X05 (extra, not a listed property) - the front ends of `cond archive`, `cond restore` and `cond clean`.

Commands.tla models what one invocation of these three decides, in the order of the code (project root; the output place of
an archive; the optional task argument; nothing to archive; the archive file given to restore; the prompt of clean), and
what it has done to the project by then (cond-out created by Context, recorded versions kept / extended / gone, an archive
produced, the temporary index removed).  TLC checks RefusedKeepsVersions / ArchiveReadOnly / ArchiveIff / CleanIff /
NoProjectNoTrace / termination and exports all 459 terminal states; each is performed as ONE real invocation (in-process
`conductor.__main__`, real tar, a real prompt fed through stdin) and compared field by field.  A disagreement is
MODEL-DRIFT.  Evidence: /verif/extras/X05.json.
"""
import json
import os
import shutil
import tempfile

from .. import common as C
from .. import clirunner as CLI
from .. import project as P
from .. import runcheck as RC

PROP = "X05"
COND = ('run_experiment(name="e", run="echo r > $COND_OUT/r.txt")\n'
        'run_experiment(name="fresh", run="true")\n'
        'run_command(name="c", run="true")\n')
TASK = {"exp_versions": "//:e", "exp_fresh": "//:fresh", "cmd_only": "//:c", "malformed": "//:bad name", "missing": "//:nope"}
ANSWER = {"y": "y\n", "Y_blank": "  Y \n", "n": "n\n", "empty": "\n", "yes": "yes\n", "eof": ""}


def make_project(root):
    os.makedirs(os.path.join(root, "sub"))
    with open(os.path.join(root, "cond_config.toml"), "w") as f:
        f.write("disable_git = true\n")
    with open(os.path.join(root, "COND"), "w") as f:
        f.write(COND)


def cond(root, argv, clock=100, cwd="", stdin_text=None):
    return C.fork_map(lambda _: CLI.run_cli(root, argv, clock=clock, cwd=cwd, stdin_text=stdin_text), [0], nproc=1, timeout=120)[0]


def rows_of(root):
    r = P.read_index(root)
    return sorted((x["task"], x["ts"]) for x in r) if r else []


def perform(i):
    d = tempfile.mkdtemp(prefix="cvx05_", dir=C.scratch_root())
    try:
        w = os.path.join(d, "w")
        root = os.path.join(w, "p")
        os.makedirs(os.path.join(w, "outside"))
        make_project(root)
        if i["hasVersions"] and i["root"] != "none":
            r0 = cond(root, ["run", "//:e"], clock=100)
            if r0["status"] != 0:
                return {"_error": "setup run failed: %s" % r0["stderr"][-300:]}
        before = rows_of(root)
        start, cwd = (os.path.join(w, "outside"), "") if i["root"] == "none" else (root, "" if i["root"] == "here" else "sub")
        import conductor.errors.base as eb
        places, taken_before = [], None
        if i["cmd"] == "archive":
            argv = ["archive"]
            if i["task"] != "none":
                argv.append(TASK[i["task"]])
            if i["latest"]:
                argv.append("--latest")
            os.makedirs(os.path.join(d, "outdir"))
            with open(os.path.join(d, "taken.tar.gz"), "w") as f:
                f.write("somebody's file\n")
            taken_before = open(os.path.join(d, "taken.tar.gz")).read()
            o = {"default": None, "existing_dir": os.path.join(d, "outdir"), "existing_file": os.path.join(d, "taken.tar.gz"),
                 "new_file": os.path.join(d, "outdir", "new.tar.gz"), "missing_dir": os.path.join(d, "nodir", "new.tar.gz")}[i["out"]]
            if o:
                argv += ["-o", o]
            stdin_text = None
        elif i["cmd"] == "restore":
            f_ = {"missing": os.path.join(d, "nothere.tar.gz"), "directory": os.path.join(d, "adir"),
                  "garbage": os.path.join(d, "garbage.tar.gz"), "valid": os.path.join(d, "donor.tar.gz"),
                  "recorded_already": os.path.join(d, "own.tar.gz")}[i["file"]]
            os.makedirs(os.path.join(d, "adir"))
            with open(os.path.join(d, "garbage.tar.gz"), "wb") as f:
                f.write(b"\x1f\x8b" + os.urandom(300))
            if i["file"] == "valid":
                donor = os.path.join(d, "donor")
                make_project(donor)
                cond(donor, ["run", "//:e"], clock=50)
                cond(donor, ["archive", "-o", f_], clock=51)
            if i["file"] == "recorded_already" and i["root"] != "none":
                cond(root, ["archive", "-o", f_], clock=101)
            elif i["file"] == "recorded_already":
                donor = os.path.join(d, "donor")
                make_project(donor)
                cond(donor, ["run", "//:e"], clock=100)
                cond(donor, ["archive", "-o", f_], clock=101)
            argv = ["restore", f_]
            stdin_text = None
        else:
            argv = ["clean"] + (["-f"] if i["force"] else [])
            stdin_text = ANSWER[i["answer"]]
        seen = []
        real = eb.ConductorError.printable_message

        def printable_message(self):
            seen.append(type(self).__name__)
            return real(self)
        eb.ConductorError.printable_message = printable_message
        r = CLI.run_cli(start, argv, clock=200, cwd=cwd, stdin_text=stdin_text)
        eb.ConductorError.printable_message = real
        if r["stderr_kind"] == "Traceback":
            last = [ln for ln in r["stderr"].strip().splitlines() if ln and not ln.startswith(" ")]
            outcome = "Traceback:" + (last[-1].split(":")[0] if last else "?")
        elif r["status"] == 0:
            outcome = "ok"
        else:
            outcome = seen[-1] if seen else "exit%s" % r["status"]
        co = os.path.join(root, "cond-out")
        condout = "dir" if os.path.isdir(co) else "absent"
        after = rows_of(root)
        versions = "none" if not after else ("kept" if after == before else ("more" if set(before) < set(after) else "changed"))
        import glob
        produced = (glob.glob(os.path.join(co, "cond-archive+*.tar.gz")) + glob.glob(os.path.join(d, "outdir", "*.tar.gz"))
                    + glob.glob(os.path.join(w, "outside", "*.tar.gz")) + glob.glob(os.path.join(root, "*.tar.gz")))
        intact = True
        if taken_before is not None:
            intact = os.path.isfile(os.path.join(d, "taken.tar.gz")) and open(os.path.join(d, "taken.tar.gz")).read() == taken_before
        good = False
        for pth in produced:
            import tarfile
            try:
                with tarfile.open(pth) as tf:
                    names = tf.getnames()
                good = good or any(n.startswith("e.task.") for n in names)
            except Exception:  # noqa: BLE001
                pass
        return {"outcome": outcome, "condout": condout, "versions": versions, "archive": bool(produced),
                "archive_readable": good or not produced, "tmpindex": os.path.exists(os.path.join(co, "version_index_archive.sqlite")),
                "intact": intact, "status": r["status"], "stderr": r["stderr"][-300:], "argv": argv[:3]}
    finally:
        shutil.rmtree(d, ignore_errors=True)


def main(tier):
    rep = C.Report(PROP, tier, "model_checking")
    RC.warm()
    mc = C.run_tlc("Commands.tla", cfg="Commands_mc.cfg", workers=4, timeout=600)
    if mc.error or mc.timed_out or mc.violated:
        rep.machinery("Commands.tla failed: %s %s" % (mc.error or "timeout", mc.violated))
        return rep.finish()
    ex = C.run_tlc("Commands.tla", cfg="Commands_export.cfg", workers=1, timeout=600)
    cases = [c for c in C.tlc_printed_json(ex) if isinstance(c, dict) and "inp" in c]
    if ex.error or len(cases) != 459:
        rep.machinery("Commands.tla export failed: %s (%d cases)" % (ex.error, len(cases)))
        return rep.finish()
    reps = 1 if tier == "quick" else 3
    todo = cases * reps
    res = C.fork_map(perform, [c["inp"] for c in todo], timeout=300)
    agree, outcomes = 0, {}
    for c, r in zip(todo, res):
        if r is None or "_error" in r or "_timeout" in r:
            rep.machinery("invocation %s failed: %s" % (c["inp"], str(r)[:400]))
            continue
        outcomes[r["outcome"]] = outcomes.get(r["outcome"], 0) + 1
        diff = [f for f in ("outcome", "condout", "versions", "archive", "tmpindex") if r[f] != c[f]]
        if not r["intact"]:
            diff.append("the existing file given to -o was changed")
        if not r["archive_readable"]:
            diff.append("the archive produced does not hold the version of //:e")
        if diff:
            rep.drift.append("`cond %s` (%s): Commands.tla predicts %s, the code gives %s [%s] %s" % (
                " ".join(os.path.basename(a) if a.startswith("/") else a for a in r["argv"]), c["inp"],
                {f: c[f] for f in ("outcome", "condout", "versions", "archive", "tmpindex")},
                {f: r[f] for f in ("outcome", "condout", "versions", "archive", "tmpindex")}, ", ".join(map(str, diff)),
                r["stderr"][-160:].replace("\n", " | ")))
        else:
            agree += 1
    if rep.machinery_errors:
        return rep.finish()
    rep.cov.update({"states": mc.distinct, "transitions": mc.generated, "evaluations": len(todo),
                    "traces_validated_against_impl": len(todo), "agreeing": agree, "distinct_nontrivial": len(cases),
                    "exhaustive": True, "outcomes_observed": outcomes,
                    "rule": "every terminal state of Commands.tla is one real invocation of archive / restore / clean (real tar, the "
                            "prompt answered through stdin); reported error class, cond-out, recorded versions, the archive and the "
                            "temporary index are compared"})
    rep.add_sample({"inp": cases[0]["inp"], "predicted": cases[0]["outcome"]})
    return rep.finish()


def replay(path):
    print("X05 has no replay files (a disagreement names its invocation)")
    return 2


def selftest():
    return 0
