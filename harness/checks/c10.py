"""C10 - recorded stdout/stderr and argument records are exact.

Tee.tla: the pipe / tee-thread / join / record protocol, model-checked for every order of child writes, child exit,
SIGCHLD observation, reads and joins (no truncation by recording before EOF, no loss when the exit is seen before the
pipe is drained).  Real executions (real processes, sequential = teed and parallel = logged directly): the task emits
self-delimiting blocks on both descriptors (sizes 0, 1, 4095, 4096, 4097, 65 536, 65 537, 1 MiB; bytes 0x00, 0xff, invalid
UTF-8, CRLF; either stream first; interleaved); stdout.log / stderr.log / Conductor's own stdout / stderr are parsed back
into token sequences (payload digests verified) and TLC checks the token-level equalities and the args.json /
options.json rule (Tee_Trace.tla).  Byte-level fidelity is covered only through these vectors.
"""
import hashlib
import json
import math
import os
import random
import shutil
import struct
import tempfile

from .. import common as C
from .. import clirunner as CLI
from .. import project as P
from .. import runcheck as RC

PROP = "C10"
CLAUSES = {"LogsExact", "ForwardedExact", "ParallelNotForwarded", "ArgsRecordExact", "OptionsRecordExact", "NoExtraBytes"}
MAGIC = b"\x1eBLK\x1e"
SIZES = [0, 1, 2, 100, 4095, 4096, 4097, 8192, 65536, 65537, 1 << 20]

EMIT = r'''
import json, os, sys, hashlib, struct
plan = json.load(open(os.environ["CV_PLAN"]))
MAGIC = b"\x1eBLK\x1e"
def payload(seed, idx, size, kind):
    if size == 0:
        return b""
    if kind == "zeros":
        return b"\x00" * size
    if kind == "ff":
        return b"\xff\xfe\xc3\x28" * (size // 4) + b"\xff" * (size % 4)
    if kind == "crlf":
        return (b"line\r\n\n\r" * (size // 8 + 1))[:size]
    out = bytearray()
    c = 0
    while len(out) < size:
        out += hashlib.sha256(("%d:%d:%d" % (seed, idx, c)).encode()).digest()
        c += 1
    return bytes(out[:size])
if plan.get("own_records"):
    # the command leaves files of its own under the names Conductor uses for its records (copied from a dependency, written
    # by a framework that also calls its config "options.json"): the documentation says Conductor's records replace them
    # (only where a record is due: a file of that name left by the command when the declared value is EMPTY is the command's own
    # output - Conductor writes no record then and is not asked to remove other people's files)
    own = [fn for fn, due in (("args.json", any(not a.startswith("--") for a in sys.argv[1:])),
                              ("options.json", any(a.startswith("--") for a in sys.argv[1:]))) if due]
    for fn in own:
        with open(os.path.join(os.environ["COND_OUT"], fn), "w") as f_:
            json.dump({"written-by": "the command itself", "padding": "x" * 4000, "list": list(range(200))}, f_, indent=2)
fds = {1: sys.stdout.buffer, 2: sys.stderr.buffer}
blocks = list(enumerate(plan["blocks"]))
late = blocks.pop() if (plan.get("late_last") and blocks) else None
def emit(idx, stream, size, kind, flush):
    p = payload(plan["seed"], idx, size, kind)
    f = fds[stream]
    f.write(MAGIC + struct.pack(">BIQ", stream, idx, size) + p)
    if flush:
        f.flush()
for idx, (stream, size, kind, flush) in blocks:
    emit(idx, stream, size, kind, flush)
sys.stdout.buffer.flush(); sys.stderr.buffer.flush()
if late is not None:
    # a helper that outlives the command's main process and still holds its stdout / stderr writes the last block later
    import time
    if os.fork() == 0:
        time.sleep(0.3)
        emit(late[0], late[1][0], late[1][1], late[1][2], True)
        sys.stdout.buffer.flush(); sys.stderr.buffer.flush()
        open(os.environ["CV_PLAN"] + ".late_done", "w").close()
        os._exit(0)
    os._exit(plan.get("exit", 0))
sys.exit(plan.get("exit", 0))
'''


def payload(seed, idx, size, kind):
    if size == 0:
        return b""
    if kind == "zeros":
        return b"\x00" * size
    if kind == "ff":
        return b"\xff\xfe\xc3\x28" * (size // 4) + b"\xff" * (size % 4)
    if kind == "crlf":
        return (b"line\r\n\n\r" * (size // 8 + 1))[:size]
    out = bytearray()
    c = 0
    while len(out) < size:
        out += hashlib.sha256(("%d:%d:%d" % (seed, idx, c)).encode()).digest()
        c += 1
    return bytes(out[:size])


def parse_blocks(data, plan):
    """-> ({stream: [token...]}, extra byte count). token = idx+1, negated when the payload differs."""
    toks = {1: [], 2: []}
    pos = 0
    extra = 0
    hl = len(MAGIC) + 13
    while True:
        j = data.find(MAGIC, pos)
        if j < 0:
            extra += len(data) - pos
            break
        extra += j - pos
        if j + hl > len(data):
            extra += len(data) - j
            break
        stream, idx, size = struct.unpack(">BIQ", data[j + len(MAGIC): j + hl])
        body = data[j + hl: j + hl + size]
        ok = (idx < len(plan["blocks"]) and stream in (1, 2) and
              body == payload(plan["seed"], idx, plan["blocks"][idx][1], plan["blocks"][idx][2]) and size == plan["blocks"][idx][1])
        toks.setdefault(stream, []).append((idx + 1) if ok else -(idx + 1))
        pos = j + hl + size
    return toks, extra


# "caf\udce9.csv": a str carrying a non-UTF-8 byte as a surrogate escape - what os.listdir / os.fsdecode / os.environ give for a
# Latin-1 file name; it reaches the command as that byte and must be recorded so that it decodes back to the same str
ARG_VALUES = ["plain", "naïve-ü", "a_b-c", True, False, 0, -7, 2 ** 53 + 1, 2 ** 70, 1.5, -0.0, 1e300, "1e3", "True", "nul",
              "caf\udce9.csv", "\U0001f600-emoji"]
KEYS = ["alpha", "b_2", "Zed", "k-x"]


def scenario(rng, k, mode):
    nblocks = rng.randrange(0, 7)
    blocks = []
    for _ in range(nblocks):
        blocks.append([rng.choice([1, 2]), rng.choice(SIZES if rng.random() < 0.8 else [rng.randrange(0, 200000)]),
                       rng.choice(["hash", "zeros", "ff", "crlf"]), rng.random() < 0.5])
    if k % 7 == 0:
        blocks = [[2, 70000, "ff", False], [1, 1, "hash", True], [2, 0, "hash", True], [1, 1 << 20, "zeros", False]]
    args = [rng.choice(ARG_VALUES) for _ in range(rng.randrange(0, 4))]
    opts = {kk: rng.choice(ARG_VALUES) for kk in rng.sample(KEYS, rng.randrange(0, 3))}
    # nested use: `cond` started from inside a task of an outer `cond run -j N` (or from a shell that exported the variables
    # to try a script by hand) inherits the outer task's COND_* variables; they are not this invocation's business
    ambient = {"COND_SLOT": str(k % 3), "COND_NAME": "outer", "COND_OUT": "/nonexistent/outer.task"} if k % 5 in (2, 3) else {}
    # the command may FAIL after having written its output: the logs are exact all the same (the records are not required then)
    code = rng.choice([0, 0, 0, 3, 1, 128])
    return {"k": k, "mode": mode, "plan": {"seed": k, "blocks": blocks, "exit": code, "late_last": k % 6 in (1, 4), "own_records": k % 4 == 1 and code == 0}, "args": args, "opts": opts,
            "ambient": ambient}


def pyrepr(v):
    if isinstance(v, float) and (math.isinf(v) or math.isnan(v)):
        return "float('%s')" % v
    return repr(v)


def worker(scn):
    d = tempfile.mkdtemp(prefix="cvc10_", dir=C.scratch_root())
    try:
        root = os.path.join(d, "p")
        os.makedirs(root)
        with open(os.path.join(root, "cond_config.toml"), "w") as f:
            f.write("disable_git = true\n")
        with open(os.path.join(root, "emit.py"), "w") as f:
            f.write(EMIT)
        plan_path = os.path.join(d, "plan.json")
        with open(plan_path, "w") as f:
            json.dump(scn["plan"], f)
        par = scn["mode"] == "par"
        src = "run_experiment(name='e', run='/venv/bin/python emit.py', parallelizable=%r, args=[%s], options={%s})\n" % (
            par, ", ".join(pyrepr(a) for a in scn["args"]), ", ".join("%r: %s" % (k, pyrepr(v)) for k, v in scn["opts"].items()))
        with open(os.path.join(root, "COND"), "w") as f:
            f.write(src)
        argv = ["run", "//:e"] + (["-j", "2"] if par else [])
        r = C.fork_map(lambda _: CLI.run_cli(root, argv, clock=100, env=dict(scn.get("ambient") or {}, CV_PLAN=plan_path)), [0], nproc=1, timeout=900)[0]
        if scn["plan"].get("late_last"):
            import time
            # in a parallel slot the helper writes straight into the log file, after `cond` has returned: wait for the helper
            # (it leaves a marker when it is done; a fixed delay would be a guess on a loaded machine)
            t_end = time.time() + 60
            while scn["plan"]["blocks"] and not os.path.exists(plan_path + ".late_done") and time.time() < t_end:
                time.sleep(0.01)
            time.sleep(0.05)
        out_dir = os.path.join(root, "cond-out", "e.task.100")
        res = {"status": r.get("status") if isinstance(r, dict) else None, "err": str(r)[:300] if not isinstance(r, dict) else ""}

        def rd(p):
            try:
                with open(p, "rb") as f:
                    return f.read()
            except OSError:
                return None
        res["stdout_log"] = rd(os.path.join(out_dir, "stdout.log"))
        res["stderr_log"] = rd(os.path.join(out_dir, "stderr.log"))
        res["own_out"] = (r.get("stdout_raw") if isinstance(r, dict) else None)
        res["args_json"] = rd(os.path.join(out_dir, "args.json"))
        res["opts_json"] = rd(os.path.join(out_dir, "options.json"))
        res["cli"] = {k: v for k, v in r.items() if k in ("status", "stderr_kind")} if isinstance(r, dict) else {}
        res["own_stdout"] = r.get("stdout_bytes") if isinstance(r, dict) else None
        res["own_stderr"] = r.get("stderr_bytes") if isinstance(r, dict) else None
        return res
    finally:
        shutil.rmtree(d, ignore_errors=True)


def include_sharing_rows():
    """Two packages include the same .cond file that defines a list and a dict; the COND file that is loaded FIRST changes them in
    place and uses them; the other one uses them as they come.  -> rows for the record clauses of both experiments."""
    out = []
    for v in range(4):
        d = tempfile.mkdtemp(prefix="cvc10i_", dir=C.scratch_root())
        try:
            root = os.path.join(d, "p")
            os.makedirs(os.path.join(root, "lib"))
            os.makedirs(os.path.join(root, "base"))
            os.makedirs(os.path.join(root, "top"))
            with open(os.path.join(root, "cond_config.toml"), "w") as f:
                f.write("disable_git = true\n")
            with open(os.path.join(root, "lib", "common.cond"), "w") as f:
                f.write("ARGS = %r\nOPTS = %r\n" % (["x"] if v % 2 else [], {"k": 1} if v < 2 else {}))
            with open(os.path.join(root, "base", "COND"), "w") as f:
                f.write("include('//lib/common.cond')\nrun_experiment(name='e1', run='true', args=ARGS, options=OPTS)\n")
            with open(os.path.join(root, "top", "COND"), "w") as f:
                f.write("include('//lib/common.cond')\nARGS += ['extra', 3]\nOPTS['fast'] = True\n"
                        "run_experiment(name='e2', run='true', args=ARGS, options=OPTS, deps=['//base:e1'])\n")
            r = C.fork_map(lambda _: CLI.run_cli(root, ["run", "//top:e2"], clock=100), [0], nproc=1, timeout=120)[0]
            exp = {"e1": ("base", ["x"] if v % 2 else [], {"k": 1} if v < 2 else {}),
                   "e2": ("top", (["x"] if v % 2 else []) + ["extra", 3], dict({"k": 1} if v < 2 else {}, fast=True))}
            for nm, (pkg, eargs, eopts) in exp.items():
                base = os.path.join(root, "cond-out", pkg)
                dirs = [x for x in (os.listdir(base) if os.path.isdir(base) else []) if x.startswith(nm + ".task.")]
                od = os.path.join(base, dirs[0]) if dirs else ""

                def dec(fn):
                    p_ = os.path.join(od, fn)
                    if not od or not os.path.isfile(p_):
                        return None
                    try:
                        return json.loads(open(p_, "rb").read().decode("utf-8"))
                    except Exception:
                        return "<undecodable>"
                a, o = dec("args.json"), dec("options.json")
                out.append({"id": 900000 + v * 2 + (nm == "e2"), "mode": "seq", "failed": not (isinstance(r, dict) and r.get("status") == 0),
                            "written": [[], []], "logged": [[], []], "forwarded": [[], []],
                            "argsPresent": a is not None, "argsNonEmpty": bool(eargs), "argsEqual": a is None or a == eargs,
                            "optsPresent": o is not None, "optsNonEmpty": bool(eopts), "optsEqual": o is None or o == eopts,
                            "extraBytes": 0, "exit": r.get("status") if isinstance(r, dict) else -1, "_args": eargs, "_opts": eopts})
        finally:
            shutil.rmtree(d, ignore_errors=True)
    return out


def same_value(a, b):
    if type(a) is not type(b):
        return False
    if isinstance(a, float):
        return (a == b and math.copysign(1, a) == math.copysign(1, b)) or (math.isnan(a) and math.isnan(b))
    return a == b


def main(tier):
    rep = C.Report(PROP, tier, "exploration")
    rng = random.Random(rep.seed + 10)
    RC.warm()
    with open(os.path.join(C.SPECS, "_gen_Tee_mc.cfg"), "w") as f:
        f.write("CONSTANT NTok = %d\nCONSTANT Cap = 2\nCONSTANT R = 2\nCONSTANT JoinBeforeRecord = TRUE\nSPECIFICATION Spec\n"
                "INVARIANT RecordedImpliesExact\nINVARIANT PrefixAlways\nPROPERTY Terminates\nCHECK_DEADLOCK TRUE\n" % (
                    3 if tier == "quick" else 4))
    mc = C.run_tlc("Tee.tla", cfg="_gen_Tee_mc.cfg", workers=8, timeout=900)
    if mc.error or mc.timed_out:
        rep.machinery("Tee.tla model check failed: %s" % (mc.error or "timeout"))
        return rep.finish()
    if mc.violated or mc.deadlock:
        rep.drift.append("Tee.tla violates %s" % (mc.violated or "deadlock"))
    n = 240 if tier == "quick" else 3000
    scns = [scenario(rng, k, "seq" if k % 2 == 0 else "par") for k in range(n)]
    res = C.fork_map(worker, scns, timeout=1200)
    rows = []
    for scn, r in zip(scns, res):
        if r is None or "_error" in r or "_timeout" in r or r.get("status") is None:
            rep.machinery("run %d failed: %s" % (scn["k"], str(r)[:500]))
            continue
        plan = scn["plan"]
        written = {1: [i + 1 for i, b in enumerate(plan["blocks"]) if b[0] == 1], 2: [i + 1 for i, b in enumerate(plan["blocks"]) if b[0] == 2]}
        lo, e1 = parse_blocks(r["stdout_log"] or b"", plan)
        le, e2 = parse_blocks(r["stderr_log"] or b"", plan)
        fo, _x1 = parse_blocks(r["own_stdout"] or b"", plan)
        fe, _x2 = parse_blocks(r["own_stderr"] or b"", plan)
        args_ok = opts_ok = True
        if r["args_json"] is not None:
            try:
                dec = json.loads(r["args_json"].decode("utf-8"))
                args_ok = isinstance(dec, list) and len(dec) == len(scn["args"]) and all(same_value(a, b) for a, b in zip(dec, scn["args"]))
            except Exception:
                args_ok = False
        if r["opts_json"] is not None:
            try:
                dec = json.loads(r["opts_json"].decode("utf-8"))
                opts_ok = isinstance(dec, dict) and set(dec) == set(scn["opts"]) and all(same_value(dec[k], v) for k, v in scn["opts"].items())
            except Exception:
                opts_ok = False
        rows.append({"id": scn["k"], "mode": scn["mode"], "failed": bool(plan.get("exit")), "written": [written[1], written[2]],
                     "logged": [lo.get(1, []) + [-99] * 0, le.get(2, [])] if True else [],
                     "forwarded": [fo.get(1, []), fe.get(2, [])],
                     "argsPresent": r["args_json"] is not None, "argsNonEmpty": bool(scn["args"]), "argsEqual": args_ok,
                     "optsPresent": r["opts_json"] is not None, "optsNonEmpty": bool(scn["opts"]), "optsEqual": opts_ok,
                     "extraBytes": e1 + e2 + len(lo.get(2, [])) + len(le.get(1, [])), "exit": r["status"]})
    # args / options built from objects that come out of a shared include(): every COND file evaluates the include for itself,
    # so what one file does to "its" list or dict is nobody else's business
    inc_rows = C.fork_map(lambda _: include_sharing_rows(), [0], timeout=300)[0]
    if not isinstance(inc_rows, list):
        rep.machinery("shared-include runs failed: %s" % str(inc_rows)[:400])
        return rep.finish()
    for ir in inc_rows:
        scns.append({"k": ir["id"], "mode": ir["mode"], "plan": {"seed": 0, "blocks": []}, "args": ir.pop("_args"), "opts": ir.pop("_opts")})
        rows.append(ir)
    with C.Scratch("tjudge") as d:
        fpath = os.path.join(d, "rows.ndjson")
        with open(fpath, "w") as fh:
            for r in rows:
                fh.write(json.dumps(r) + "\n")
        jr = C.run_tlc("Tee_Trace.tla", cfg="Tee_Trace.cfg", workers=1, timeout=900, env={"TRACE_FILE": fpath})
    verdicts = {v["id"]: v for v in C.tlc_printed_json(jr) if isinstance(v, dict) and "id" in v}
    if jr.error or len(verdicts) != len(rows):
        rep.machinery("Tee judge failed (%d/%d): %s" % (len(verdicts), len(rows), jr.error or jr.output[-1200:]))
        return rep.finish()
    nontriv = set()
    by_k = {s["k"]: s for s in scns}
    for r in rows:
        scn = by_k[r["id"]]
        if scn["plan"]["blocks"] or scn["args"] or scn["opts"]:
            nontriv.add(C.scenario_hash([scn["mode"], scn["plan"], [pyrepr(a) for a in scn["args"]], sorted(scn["opts"])]))
        bad = sorted(set(verdicts[r["id"]]["viol"]) & CLAUSES)
        if bad:
            rep.violation({"clause": bad[0], "mode": r["mode"]}, scn, "mode=%s blocks=%s args=%r options=%r: written %s logged %s "
                          "forwarded %s args.json present=%s equal=%s options.json present=%s equal=%s extra bytes=%s: %s" % (
                              r["mode"], scn["plan"]["blocks"], scn["args"], scn["opts"], r["written"], r["logged"], r["forwarded"],
                              r["argsPresent"], r["argsEqual"], r["optsPresent"], r["optsEqual"], r["extraBytes"], bad))
    rep.cov.update({
        "evaluations": len(rows), "distinct_nontrivial": len(nontriv), "traces_validated_against_impl": len(rows),
        "protocol_states": mc.distinct, "bytes_emitted": sum(b[1] for s in scns for b in s["plan"]["blocks"]),
        "rule": "execution = real run_experiment (sequential/teed and -j2/logged) whose command writes 0-6 self-delimiting blocks "
                "(sizes %s or random, payload kinds hash/zeros/ff+invalid UTF-8/CRLF, either stream first, flushed or not) and has "
                "0-3 args / 0-2 options from %r; non-trivial = at least one block or argument; distinct by scenario hash" % (
                    SIZES, [pyrepr(a) for a in ARG_VALUES]),
    })
    if rows:
        rep.add_sample({"scenario": {k: scns[0][k] for k in ("mode", "plan", "args", "opts")}, "observed": rows[0]})
    rep.assumptions += ["byte-level fidelity is decided only on these vectors (a TLA+ specification does not decide encodings); NaN excluded"]
    return rep.finish()


def replay(path):
    with open(path) as f:
        body = json.load(f)
    RC.warm()
    r = C.fork_map(worker, [body["scenario"]], timeout=1200)[0]
    print({k: (len(v) if isinstance(v, (bytes, bytearray)) else v) for k, v in r.items()})
    return 0
