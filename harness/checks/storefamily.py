"""Shared driver for the version-store checks: run histories (B3/B4), judge with StoreObs via TLC."""
import json
import random

from .. import common as C
from .. import runcheck as RC
from .. import store as S


def run_and_judge(rep, scns, clauses, sig_fn=None, timeout=1500, nontrivial_fn=None):
    RC.warm()
    hists = C.fork_map(S.run_history, scns, timeout=timeout)
    traces = []
    for i, (scn, h) in enumerate(zip(scns, hists)):
        if h is None or "_error" in h or "_timeout" in h:
            rep.machinery("history %d failed: %s" % (i, str(h)[:800]))
            continue
        bad_step = [s for s in h["steps"] if s.get("timeout") or s.get("error")]
        if bad_step:
            rep.machinery("history %d: command harness failed: %s" % (i, str(bad_step[0].get("error"))[:500]))
            continue
        traces.append(S.to_store_trace(i, scn, h))
    verdicts, tr = S.judge(traces)
    other = {}
    nontriv = set()
    for t in traces:
        i = t["id"]
        h = hists[i]
        if nontrivial_fn is None or nontrivial_fn(scns[i], h):
            nontriv.add(C.scenario_hash([[s["cmd"], s["exit"], s["crashed"], len(s["before"]["rows"]), len(s["after"]["vdirs"])]
                                         for s in t["steps"]] + [scns[i].get("tag")]))
        mine = [(st, c) for st, c in verdicts[i] if c in clauses]
        for st, c in verdicts[i]:
            if c not in clauses:
                other[c] = other.get(c, 0) + 1
        if mine:
            st, c = mine[0]
            raw = h["steps"][st - 1]
            sig = {"clause": c, "cmd": raw["cmd"], "crashed": raw["crashed"]}
            if sig_fn:
                sig.update(sig_fn(scns[i], h, st - 1, c))
            rep.violation(sig, scns[i], "step %d (%s %s, exit %s%s): %s" % (
                st, raw["cmd"], " ".join(raw["argv"][1:]), raw["exit"], ", killed" if raw["crashed"] else "",
                sorted({c2 for s2, c2 in mine if s2 == st})),
                extra={"step": st, "stdout": raw["stdout"][-400:], "stderr": raw["stderr"][-600:],
                       "before": {k: raw["before"][k] for k in ("rows", "other")},
                       "after": {k: raw["after"][k] for k in ("rows", "other")},
                       "before_vdirs": sorted(raw["before"]["vdirs"]), "after_vdirs": sorted(raw["after"]["vdirs"])})
    return hists, traces, verdicts, tr, other, nontriv


def replay_history(path, clauses, prop):
    with open(path) as f:
        body = json.load(f)
    scn = body["scenario"]
    RC.warm()
    h = C.fork_map(S.run_history, [scn], timeout=1200)[0]
    if h is None or "_error" in h:
        print("MACHINERY-ERROR: %s" % str(h)[:800])
        return 2
    t = S.to_store_trace(0, scn, h)
    v, _ = S.judge([t])
    for k, s in enumerate(h["steps"]):
        print("step %d: %s exit=%s crashed=%s rows %d -> %d, vdirs %d -> %d" % (
            k + 1, " ".join(s["argv"]), s["exit"], s["crashed"], len(s["before"]["rows"] or []),
            len(s["after"]["rows"] or []), len(s["before"]["vdirs"]), len(s["after"]["vdirs"])))
        if s["stderr"].strip():
            print("    stderr: %s" % s["stderr"].strip()[-300:].replace("\n", "\n    "))
    mine = [(st, c) for st, c in v[0] if c in clauses]
    print("violated clauses of this property:", mine)
    print("other clauses:", [(st, c) for st, c in v[0] if c not in clauses])
    if mine:
        print("VIOLATION property=%s replay=%s" % (prop, path))
        return 1
    print("replay does not violate the property on the current tree")
    return 0


def selftest(prop):
    """Binding demonstration for the store family: corrupt recorded observations and require TLC to reject them."""
    import copy
    from .. import storegen as G
    rng = random.Random(5)
    RC.warm()
    scn = {"project": G.base_project(rng), "steps": [G.run_step(rng, 100, again=False, p_fail=0.0),
                                                      G.run_step(rng, 150, target="//:a", again=True, p_fail=0.0),
                                                      {"cmd": "gc", "argv": ["gc"]}], "tag": "selftest"}
    h = C.fork_map(S.run_history, [scn], timeout=1200)[0]
    t = S.to_store_trace(0, scn, h)
    muts = []
    m = copy.deepcopy(t)
    m["steps"][1]["after"]["vdirs"] = m["steps"][1]["after"]["vdirs"][1:]
    muts.append(("drop-a-recorded-directory", m, {"IndexImpliesData", "RecordedImmutable"}))
    m = copy.deepcopy(t)
    m["steps"][1]["after"]["vdirs"][0][2] += 1000
    muts.append(("change-a-recorded-tree", m, {"RecordedImmutable"}))
    m = copy.deepcopy(t)
    m["steps"][1]["spawns"][0][1] = 1
    muts.append(("old-version-id", m, {"IdAboveRecorded", "RowsOnlyForExit0", "SuccessRecorded"}))
    m = copy.deepcopy(t)
    m["steps"][2]["after"]["rows"] = m["steps"][2]["after"]["rows"][1:]
    muts.append(("gc-drops-a-row", m, {"GcKeepsIndex"}))
    batch = [t] + [dict(x[1], id=i + 1) for i, x in enumerate(muts)]
    v, _ = S.judge(batch)
    ok = not v[0]
    if v[0]:
        print("selftest: the unmodified history is rejected: %s" % v[0])
    for i, (name, _m, expect) in enumerate(muts):
        got = {c for _s, c in v[i + 1]}
        print("selftest %-28s rejected=%s clauses=%s" % (name, bool(got), sorted(got)))
        ok = ok and bool(got & expect)
    print("selftest %s: %s" % (prop, "binding demonstrated" if ok else "FAILED"))
    return 0 if ok else 2
