"""C13 - gc removes exactly the unrecorded experiment outputs.

Trees are reached by real histories (runs with failing / killed tasks, --again) plus manual additions
(look-alikes inside task outputs, wrong-package twins, stray files, symlinked directories); `gc --dry-run`, `gc -v`
and `gc` run for real; the projections before/after are judged by TLC against StoreObs (Gc* clauses).
Store.tla (GcVisit/GcDelete with Crash) is model-checked against the same clauses.
"""
import random

from .. import common as C
from .. import storegen as G
from . import storefamily as F
from . import storemodel

PROP = "C13"
CLAUSES = {"GcKeepsIndex", "GcKeepsRecorded", "GcCreatesNothing", "GcRemovesAllGarbage", "GcTouchesNothingElse",
           "DryRunDeletesNothing", "DryRunListsExactlyGarbage", "OutsideUntouched"}


DRY_SPELLINGS = [["--dry-run"], ["-n", "-v"], ["-n"], ["--verbose", "--dry-run"], ["-nv"], ["--dry-run", "--verbose"], ["-v", "-n"]]


def scenario(rng, k):
    proj = G.base_project(rng)
    steps = [G.run_step(rng, 100, again=False, p_fail=0.4)]
    if rng.random() < 0.7:
        steps.append(G.run_step(rng, 100 + rng.choice([0, 1, 50]), again=True, p_fail=0.4,
                                jobs=rng.choice([None, 2])))
    if rng.random() < 0.3:
        # the same task NAME changes kind over time: command -> experiment (versions get recorded) -> command again, re-run in
        # place; its unversioned output directory is a command's output and none of gc's business
        steps += [{"cmd": "retype", "task": "//:cmd", "kind": "run_experiment"},
                  G.run_step(rng, 2000000000, target="//:cmd", again=True, p_fail=0.0),      # (a clock ahead of the real one: ids are timestamps)
                  {"cmd": "retype", "task": "//:cmd", "kind": "run_command"},
                  G.run_step(rng, 2000000060, target="//:cmd", again=True, p_fail=0.0)]
    steps.append({"cmd": "plant", "entries": G.gc_plants(rng)})
    # every spelling and combination of the two flags: --dry-run must win whatever else is given
    steps.append({"cmd": "gcdry", "argv": ["gc"] + DRY_SPELLINGS[k % len(DRY_SPELLINGS)]})
    steps.append({"cmd": "gc", "argv": ["gc"] + (["-v"] if rng.random() < 0.5 else [])})
    steps.append({"cmd": "gcdry", "argv": ["gc", "-n"]})
    return {"project": proj, "steps": steps, "tag": k}


def sig(scn, h, st, clause):
    plants = [e for s in scn["steps"] if s["cmd"] == "plant" for e in s["entries"]]
    return {"symlink_out": any(e.get("kind") == "symlink" and "outside" in e.get("target", "") for e in plants)}


def main(tier):
    rep = C.Report(PROP, tier, "model_checking")
    rng = random.Random(rep.seed + 13)
    mc = storemodel.check(rep, tier, PROP)
    if rep.machinery_errors:
        return rep.finish()
    n = 120 if tier == "quick" else 2500
    scns = [scenario(rng, k) for k in range(n)]
    hists, traces, verdicts, tr, other, nontriv = F.run_and_judge(rep, scns, CLAUSES, sig_fn=sig)
    rep.cov.update({
        "states": mc.distinct, "transitions": mc.generated,
        "traces_validated_against_impl": len(traces),
        "evaluations": len(scns), "distinct_nontrivial": len(nontriv),
        "gc_commands": sum(1 for t in traces for s in t["steps"] if s["cmd"] in ("gc", "gcdry")),
        "rule": "history = run (failures/kills) [, run --again] ; manual additions (sample of 12 kinds incl. symlinks, "
                "wrong-package twins, look-alikes inside task outputs) ; gc --dry-run ; gc [-v] ; gc -n, on a project "
                "with nested packages; distinct by per-step (cmd, exit, row/dir counts) signature",
        "clauses_of_other_properties_seen": other,
    })
    if traces:
        t = traces[0]
        rep.add_sample({"steps": [[s["cmd"], s["exit"], len(s["before"]["vdirs"]), len(s["after"]["vdirs"])] for s in t["steps"]]})
    rep.assumptions += ["`experiment output directory` = a directory named <name>.task.<positive integer> at a task position "
                        "(reached from cond-out through non-task directories); symlinks are never descended into"]
    return rep.finish()


def replay(path):
    return F.replay_history(path, CLAUSES, PROP)


def selftest():
    return F.selftest(PROP)
