"""Model checking of Store.tla (implementation-shaped store commands with Crash) for the store properties."""
from .. import common as C


def check(rep, tier, prop):
    cfg = "Store_mc.cfg" if tier == "quick" else "Store_thorough.cfg"
    res = C.run_tlc("Store.tla", cfg=cfg, timeout=300 if tier == "quick" else 2400)
    if res.error or (res.timed_out and tier == "quick"):
        rep.machinery("TLC Store model check failed: %s" % (res.error or "timeout"))
    rep.cov["model_invariants_violated"] = sorted(set(res.violated))
    return res
