"""Model checking of Store.tla (implementation-shaped store commands with Crash at every step)."""
import os

from .. import common as C

# the model follows the code: flip when the corresponding repair is committed in /repo (known_findings.json)
MODEL_FIXED_D2 = True
MODEL_FIXED_D10 = True

INVS = ["C06", "C08", "C11", "C12", "C13", "IndexNeverOutlivesData"]


def write_cfg(name, exps, maxclock, maxcmds):
    with open(os.path.join(C.SPECS, name), "w") as f:
        f.write("CONSTANT Exps = {%s}\n" % ", ".join(str(e) for e in exps))
        f.write("CONSTANT MaxClock = %d\nCONSTANT MaxCmds = %d\n" % (maxclock, maxcmds))
        f.write("CONSTANT FixedD2 = %s\n" % ("TRUE" if MODEL_FIXED_D2 else "FALSE"))
        f.write("CONSTANT FixedD10 = %s\n" % ("TRUE" if MODEL_FIXED_D10 else "FALSE"))
        f.write("SPECIFICATION Spec\n")
        for i in INVS:
            f.write("INVARIANT %s\n" % i)
        f.write("PROPERTY FailedRestoreKeepsIndex\nCHECK_DEADLOCK FALSE\n")
    return name


def check(rep, tier, prop):
    if tier == "quick":
        cfg = write_cfg("_gen_Store_%s.cfg" % prop, [1], 3, 4)
        res = C.run_tlc("Store.tla", cfg=cfg, timeout=1200)
    else:
        cfg = write_cfg("_gen_Store_%s.cfg" % prop, [1, 2], 3, 4)
        res = C.run_tlc("Store.tla", cfg=cfg, timeout=3000)
    if res.error or (res.timed_out and tier == "quick"):
        rep.machinery("TLC Store model check failed: %s" % (res.error or "timeout"))
    rep.cov["model_invariants_violated"] = sorted(set(res.violated))
    rep.cov["model_timed_out"] = res.timed_out
    return res
