"""C03 - see DESIGN.md section 6 and harness/checks/runfamily.py."""
from . import runfamily as F

PROP = "C03"
CLAUSES = set("SkipIffDependsOnFailure SkippedNeverStarted ExitZeroIffAllSucceeded FailedListExact SkippedListExact IndependentsRan NothingAfterFirstFailure StopEarlyKilledRunning NoInternalError".split())


def main(tier):
    return F.run_family(PROP, CLAUSES, tier, "fail", 700, 15000, dfs=False)


def replay(path):
    from .. import replaytool
    return replaytool.replay_run(path, CLAUSES)


def selftest():
    from .. import replaytool
    return replaytool.selftest_run(PROP, CLAUSES)
