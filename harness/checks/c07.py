"""C07 - task environment contract and a consistent dependency snapshot.

Layer 1: Planner.tla invariant InvSnapshotExact (every dependent sees exactly the selected version of each dependency,
         in declared order) model-checked over all ordered-deps graphs x kinds x cache states x modes.
Layer 2/3: (A) real `cond run` under the FakeKernel on random graphs with args/options/nested packages/cache states;
         the argv/env/cwd handed to fork_exec are judged by TLC against RunObs clauses Env*.
         (B) real `cond run` with real processes whose command evaluates conductor.lib inside the task; clause LibAgrees.
"""
import json
import os
import random
import shutil
import tempfile

from .. import common as C
from .. import clirunner as CLI
from .. import project as P
from .. import runcheck as RC
from .. import runobs as R
from . import c02

PROP = "C07"
CLAUSES = {"EnvShell", "EnvArgv", "EnvCwd", "EnvName", "EnvOut", "EnvDeps", "LibAgrees", "RowIsTheVersionRun"}

# values of different types that compare equal (True == 1 == 1.0, False == 0 == 0.0 == -0.0) sit next to each other on purpose
ARG_POOL = ["x", "7", "-3", "2.5", "a_b", "k-z", True, False, 0, 12, 1.5, "Z9", "1e3", 1.0, 0.0, -0.0, 1, True, 1.0]
KEY_POOL = ["threads", "mem", "k_1", "zeta", "alpha", "B"]

PROBE = r'''
import json, os, sys
import conductor.lib as cl
out = os.environ.get("COND_OUT")
rec = {"name": os.environ.get("COND_NAME"), "envOut": out, "envDeps": os.environ.get("COND_DEPS"),
       "cwd": os.getcwd(), "argv": sys.argv[1:],
       "libOut": str(cl.get_output_path()), "libDeps": [str(p) for p in cl.get_deps_paths()],
       "libIn": str(cl.in_output_dir("x/y.txt")), "libInP": str(cl.in_output_dir(__import__("pathlib").Path("q")))}
with open(os.path.join(out, "probe.json"), "w") as f:
    json.dump(rec, f)
with open(os.path.join(out, "data.txt"), "w") as f:
    f.write("data\n")
'''


def scen_a(rng, k):
    n = rng.choice([2, 3, 4, 5])
    g = RC.random_graph(rng, n, p_cached=0.3, dense=rng.choice([0.5, 0.9]))
    g["again"] = rng.random() < 0.25
    args, options = {}, {}
    for t in range(1, n + 1):
        if rng.random() < 0.7:
            args[t] = [rng.choice(ARG_POOL) for _ in range(rng.randrange(0, 4))]
        if rng.random() < 0.7:
            keys = rng.sample(KEY_POOL, rng.randrange(0, 4))
            options[t] = {kk: rng.choice(ARG_POOL) for kk in keys}
    scn = RC.scenario_from_graph(g, placement=k, jobs=rng.choice([1, 2, 3]), args=args, options=options,
                                 sched={"seed": rng.randrange(1 << 30)})
    for t in scn["project"]["tasks"]:
        if t["kind"] in ("run_experiment", "run_command"):
            t["run"] = rng.choice(["true", "./go.sh", "python3 m.py run"])
    scn["cond_symlinks"] = k % 4 == 1 and rng.random() < 0.8     # placements with packages: their COND files are symlinks
    if k % 5 == 2:
        # `cond run` started from INSIDE a task of an enclosing `cond run` (a driver script, a nested project): the task
        # variables of the outer task are in Conductor's own environment and must not leak into its tasks
        scn["ambient"] = {"COND_DEPS": "/outer/cond-out/prepare.task:/outer/cond-out/x.task.5", "COND_OUT": "/outer/cond-out/outer.task",
                          "COND_NAME": "outer", "COND_SLOT": "7"}
    if k % 3 == 0:
        # leftovers of an earlier failed / aborted execution in the very second of this run: the version that is RECORDED must
        # be the one whose directory the task was given
        pkgs_ = RC.PLACEMENTS[k % len(RC.PLACEMENTS)][:n] if n <= 6 else [""] * n
        scn["plant"] = [{"path": os.path.join("cond-out", pkgs_[t - 1], "t%d.task.%d" % (t, g["now"] + off), "leftover.txt")}
                        for t in range(1, n + 1) if g["kind"][t - 1] == "exp" and rng.random() < 0.6 for off in range(rng.randrange(1, 3))]
    return scn


def run_real(scn):
    """Forked child: real processes. Returns list of probe records + status."""
    d = tempfile.mkdtemp(prefix="cvc07_", dir=C.scratch_root())
    try:
        root = os.path.join(d, "p")
        P.write_project(root, scn["project"])
        with open(os.path.join(root, "probe.py"), "w") as f:
            f.write(PROBE)
        if scn.get("condout_symlink"):
            # cond-out kept on another disk: a symbolic link in the project root (the values the task is given - and the ones the
            # library reports - are spelled through the project, not through the link's target)
            os.makedirs(os.path.join(d, "scratch_disk", "out"))
            if os.path.isdir(os.path.join(root, "cond-out")):
                shutil.rmtree(os.path.join(root, "cond-out"))
            os.symlink(os.path.join(d, "scratch_disk", "out"), os.path.join(root, "cond-out"))
        r = C.fork_map(lambda _: CLI.run_cli(root, scn["argv"], clock=scn.get("clock")), [0], nproc=1)[0]
        probes = []
        for dp, dn, fn in os.walk(os.path.join(root, "cond-out"), followlinks=True):
            if "probe.json" in fn:
                with open(os.path.join(dp, "probe.json")) as f:
                    rec = json.load(f)
                rec["dir"] = os.path.relpath(dp, root)
                probes.append(rec)
        return {"cli": r, "probes": probes, "root": os.path.realpath(root)}
    finally:
        shutil.rmtree(d, ignore_errors=True)


def scen_b(rng, k):
    """exp/cmd tasks that run the probe; dependency shapes: none / group only / one / several incl. cached."""
    n = rng.choice([2, 3, 4])
    g = RC.random_graph(rng, n, kinds=("exp", "cmd", "group", "exp"), p_cached=0.0, dense=rng.choice([0.0, 0.5, 1.0]))
    scn = RC.scenario_from_graph(g, placement=k, jobs=1)
    for t in scn["project"]["tasks"]:
        if t["kind"] in ("run_experiment", "run_command"):
            t["run"] = "/venv/bin/python $(git rev-parse --show-toplevel 2>/dev/null || true)probe_path"
    return scn, g


def main(tier):
    rep = C.Report(PROP, tier, "model_checking")
    rng = random.Random(rep.seed + 77)
    RC.warm()
    cfg = c02.planner_cfg("_gen_Planner_c07.cfg", 3, ["exp", "cmd", "group"] if tier == "quick" else ["exp", "cmd", "group", "combine"], ["default", "again", "atleast"],
                          c02.MODEL_FIXED_D1, ["InvSnapshotExact", "InvExactlyOnce", "InvFreshIds"])
    mc = C.run_tlc("Planner.tla", cfg=cfg, timeout=900)
    if mc.error or mc.timed_out:
        rep.machinery("TLC Planner model check failed: %s" % (mc.error or "timeout"))
        return rep.finish()
    # ---- (A) FakeKernel
    na = 500 if tier == "quick" else 8000
    scns = [scen_a(rng, k) for k in range(na)]
    results = RC.run_batch(scns)
    verdicts, traces, errs, tr = RC.judge_batch(scns, results)
    for i, r in errs:
        rep.machinery("scenario %d failed: %s" % (i, str(r)[:600]))
    by_id = {t["id"]: t for t in traces}
    nontrivial = set()
    for i, cl in verdicts.items():
        t = by_id[i]
        if any(e["e"] == "Spawn" and (e["deps"] or len(e["cmd"]) > 1) for e in t["events"]):
            nontrivial.add(C.scenario_hash(t["cfg"]))
        bad = sorted(set(cl) & CLAUSES)
        if bad:
            rep.violation({"clause": bad[0], "clauses": bad, "part": "A"}, scns[i],
                          "deps=%s kind=%s: %s" % (t["cfg"]["deps"], t["cfg"]["kind"], bad), extra={"trace": t})
    # ---- (B) real processes, conductor.lib inside the task
    nb = 40 if tier == "quick" else 400
    bscn = []
    for k in range(nb):
        n = rng.choice([1, 2, 3, 4])
        g = RC.random_graph(rng, n, kinds=("exp", "cmd", "group", "exp"), p_cached=0.0, p_par=0.0,
                            dense=rng.choice([0.0, 0.6, 1.0]))
        scn = RC.scenario_from_graph(g, placement=k, jobs=1)
        for t in scn["project"]["tasks"]:
            if t["kind"] in ("run_experiment", "run_command"):
                depth = len([x for x in t["pkg"].split("/") if x])
                t["run"] = "/venv/bin/python " + "../" * depth + "probe.py"
        scn["clock"] = None
        scn["condout_symlink"] = k % 4 == 3
        bscn.append(scn)
    bres = C.fork_map(run_real, bscn, timeout=900)
    ltraces = []
    for k, (scn, r) in enumerate(zip(bscn, bres)):
        if r is None or "_error" in r or "_timeout" in r:
            rep.machinery("real run %d failed: %s" % (k, str(r)[:600]))
            continue
        cfgd, _num = R.build_cfg(scn)
        intern = {}

        def I(s):
            return intern.setdefault(s, len(intern) + 1)
        evs = []
        for p in r["probes"]:
            env_deps = [x for x in (p["envDeps"] or "").split(":") if x]
            evs.append({"e": "Lib", "libOut": I(p["libOut"]), "envOut": I(p["envOut"]),
                        "libDeps": [I(x) for x in p["libDeps"]], "envDeps": [I(x) for x in env_deps],
                        "libIn": I(p["libIn"]), "wantIn": I(os.path.join(p["envOut"], "x/y.txt")),
                        "name": p["name"]})
        ltraces.append({"id": 100000 + k, "cfg": cfgd, "events": evs, "_k": k, "_n": len(evs)})
    if ltraces:
        lverd, ltr = R.judge([{k: v for k, v in t.items() if not k.startswith("_")} for t in ltraces])
        for t in ltraces:
            bad = sorted(set(lverd[t["id"]]) & CLAUSES)
            if t["_n"] >= 1:
                nontrivial.add(C.scenario_hash(["B", t["cfg"]["deps"], t["cfg"]["kind"]]))
            if bad:
                k = t["_k"]
                nodeps = any(e["envDeps"] == [] for e in t["events"])
                rep.violation({"clause": bad[0], "part": "B", "empty_deps": nodeps}, bscn[k],
                              "conductor.lib inside the task disagrees with the environment: %s" % json.dumps(
                                  bres[k]["probes"][:2])[:600], extra={"trace": t})
    rep.cov.update({
        "states": mc.distinct, "transitions": mc.generated,
        "traces_validated_against_impl": len(verdicts) + len(ltraces),
        "evaluations": len(scns) + len(bscn), "distinct_nontrivial": len(nontrivial),
        "real_process_runs": len(bscn), "lib_probes": sum(t["_n"] for t in ltraces),
        "rule": "(A) random graphs 2-5 tasks x kinds x nested packages x args/options from a pool of shell-inert primitive "
                "values x cache states x --again x jobs, spawn argv/env/cwd recorded at fork_exec; (B) real runs whose task "
                "command evaluates conductor.lib; non-trivial = a spawn with dependencies or arguments; distinct by config hash",
    })
    for t in traces[:1]:
        sp = [e for e in t["events"] if e["e"] == "Spawn"][:2]
        rep.add_sample({"cfg": {k: t["cfg"][k] for k in ("deps", "kind", "args", "opts", "pkg")}, "spawns": sp})
    rep.assumptions += ["args/options restricted to shell-inert tokens (the documentation promises concatenation, not quoting)",
                        "FakeKernel records exactly what subprocess._fork_exec receives"]
    return rep.finish()


def replay(path):
    with open(path) as f:
        body = json.load(f)
    if body.get("signature", {}).get("part") == "B":
        RC.warm()
        r = C.fork_map(run_real, [body["scenario"]])[0]
        print(json.dumps(r.get("probes"), indent=1))
        bad = [p for p in r["probes"] if p["libDeps"] != [x for x in (p["envDeps"] or "").split(":") if x]
               or p["libOut"] != p["envOut"]]
        if bad:
            print("VIOLATION property=%s replay=%s" % (PROP, path))
            return 1
        return 0
    from .. import replaytool
    return replaytool.replay_run(path, CLAUSES)


def selftest():
    from .. import replaytool
    return replaytool.selftest_run(PROP, CLAUSES)
