"""C09 - see DESIGN.md section 6 and harness/checks/runfamily.py."""
from . import runfamily as F

PROP = "C09"
CLAUSES = set("TerminatesWhenAllExited OneOutcomeEach StatusBelongsToTask".split())


def main(tier):
    return F.run_family(PROP, CLAUSES, tier, "reap", 600, 15000, dfs=True)


def replay(path):
    from .. import replaytool
    return replaytool.replay_run(path, CLAUSES)


def selftest():
    from .. import replaytool
    return replaytool.selftest_run(PROP, CLAUSES)
