"""C20 - task identifiers: one grammar, canonical form, distinct output locations.

Identifier.tla: recognisers and a constructive generator of the documented grammar over a 12-character alphabet
(identifier characters, separators, '.', newline, space, tab, '*'); TLC checks generator = recogniser on all strings up
to length 5, print/parse round trip and injectivity of the output-directory mapping.  The real code
(is_name_valid, from_str with and without required prefix, from_relative_str, str(), output directory naming) is run on
EVERY string up to the length bound; the accepted sets and the parsed table go back to TLC, which compares them with
the grammar (ObsClauses).  Relative identifiers: real runs in nested packages (FakeKernel) judged by RunObs.
"""
import itertools
import json
import os
import pathlib
import random

from .. import common as C
from .. import runcheck as RC
from .. import runobs as R

PROP = "C20"
CLAUSES = {"NameGrammar", "IdentifierGrammar", "IdentifierGrammarNoPrefix", "RelativeGrammar", "CanonicalRoundTrip",
           "DistinctOutputDirs", "OnlyNeeded", "EnvCwd", "EnvDeps", "StartAfterDepsExit0"}
ALPHA = ["a", "Z", "0", "-", "_", "/", ":", ".", "\n", " ", "\t", "*", "\u212a"]
CODE = {c: i + 1 for i, c in enumerate(ALPHA)}


def enc(s):
    return [CODE[c] for c in s]


def scan_worker(job):
    """All strings with a given first character (or the empty string): what does the real code accept?"""
    first, L = job
    from conductor.task_identifier import TaskIdentifier
    from conductor.errors import ConductorError
    import conductor.filename as f
    names, ab, abnp, rel, parsed = [], [], [], [], []
    count = 0
    lens = [0] if first is None else range(1, L + 1)
    for n in lens:
        for tail in itertools.product(ALPHA, repeat=max(0, n - 1)):
            s = "" if first is None else first + "".join(tail)
            count += 1
            if TaskIdentifier.is_name_valid(s):
                names.append(enc(s))
            ok_np = None
            try:
                ok_np = TaskIdentifier.from_str(s, require_prefix=False)
                abnp.append(enc(s))
            except ConductorError:
                pass
            try:
                TaskIdentifier.from_str(s)
                ab.append(enc(s))
            except ConductorError:
                pass
            try:
                r = TaskIdentifier.from_relative_str(s, pathlib.Path("x"))
                if r.path == pathlib.Path("x") and ":" + r.name == s:
                    rel.append(enc(s))
                else:
                    rel.append(enc(s) + [12])
            except ConductorError:
                pass
            if ok_np is not None:
                printed = str(ok_np)
                try:
                    again = TaskIdentifier.from_str(printed)
                    same = again == ok_np and hash(again) == hash(ok_np) and str(again) == printed
                except ConductorError:
                    same = False
                parsed.append([enc(s), [enc(p) for p in ok_np.path.parts], enc(ok_np.name) if all(
                    c in CODE for c in ok_np.name) else [12], enc(printed) if all(c in CODE for c in printed) else [12], same])
    return {"count": count, "names": names, "abs": ab, "absnp": abnp, "rel": rel, "parsed": parsed}


SEGMENTS = {"a": "COND", "Z": "cond-out", "0": "x"}


def special_rows():
    """Identifiers whose path segments / names are words Conductor itself uses (COND, cond-out), built from abstract strings
    over {a, Z, 0, /, :} with a -> "COND", Z -> "cond-out", 0 -> "x": the real parser's answer is decoded back to the abstract
    alphabet, so the specification's Parse / PrintId judge it like any other identifier."""
    import re
    from conductor.task_identifier import TaskIdentifier
    from conductor.errors import ConductorError
    tok = re.compile("|".join(sorted((re.escape(v) for v in SEGMENTS.values()), key=len, reverse=True)))
    inv = {v: k for k, v in SEGMENTS.items()}

    def conc(abs_s):
        return "".join(SEGMENTS.get(c, c) for c in abs_s)

    def dec(real):
        out, pos = [], 0
        while pos < len(real):
            m = tok.match(real, pos)
            if m:
                out.append(inv[m.group(0)])
                pos = m.end()
            else:
                out.append(real[pos] if real[pos] in CODE else "*")
                pos += 1
        return "".join(out)
    rows = []
    segs = ["a", "Z", "0", "aa", "a0"]
    for depth in range(0, 4):
        for path in itertools.product(segs, repeat=depth):
            for name in ["a", "0", "Z"]:
                for trailing in ("", "/"):
                    if depth == 0 and trailing:
                        continue
                    abs_s = "//" + "/".join(path) + trailing + ":" + name
                    try:
                        ident = TaskIdentifier.from_str(conc(abs_s), require_prefix=False)
                    except ConductorError:
                        continue
                    printed = str(ident)
                    try:
                        again = TaskIdentifier.from_str(printed)
                        same = again == ident and str(again) == printed
                    except ConductorError:
                        same = False
                    rows.append([enc(abs_s), [enc(dec(p)) for p in ident.path.parts], enc(dec(ident.name)), enc(dec(printed)), same])
    return rows


def outdir_table():
    """(identifier, version) -> output directory as the code computes it, for a family of identifiers."""
    from conductor.task_identifier import TaskIdentifier
    from conductor.execution.version_index import Version
    from conductor.task_types.base import TaskType
    import conductor.filename as f
    rows = []
    intern = {}
    names = ["a", "b", "ab", "a-b", "a_b", "task", "a1", "1"]
    # long names that differ only at the very end (parameter sweeps name tasks after their parameters): every length up to what
    # still fits a directory name (NAME_MAX 255 including ".task.<timestamp>")
    for ln in (100, 127, 128, 138, 139, 143, 200, 230):
        names += ["x" * (ln - 1) + "a", "x" * (ln - 1) + "b"]
    paths = [(), ("a",), ("b",), ("a", "b"), ("ab",), ("a", "a"), ("a-b",), ("task",)]
    for p in paths:
        for n in names:
            ident = TaskIdentifier(pathlib.Path(*p), n)
            t = TaskType(ident, pathlib.Path("COND"), [])
            for v in (None, 1, 12, 2):
                if v is None:
                    d = pathlib.Path("out") / t._output_path_suffix if hasattr(t, "_output_path_suffix") else None
                    d = pathlib.Path("out", ident.path, f.task_output_dir(ident))
                else:
                    d = pathlib.Path("out", ident.path, f.task_output_dir(ident, Version(v, None, False)))
                key = str(ident)
                rows.append([intern.setdefault(key, len(intern) + 1), v or 0, [intern.setdefault("c:" + c, len(intern) + 1)
                                                                               for c in d.parts]])
    return rows


def main(tier):
    rep = C.Report(PROP, tier, "model_checking")
    RC.warm()
    L = 5 if tier == "quick" else 6
    with open(os.path.join(C.SPECS, "_gen_Identifier_mc.cfg"), "w") as f:
        f.write("CONSTANT L = %d\nSPECIFICATION Spec\nINVARIANT Theorems\nCHECK_DEADLOCK FALSE\n" % min(L, 5))
    mc = C.run_tlc("Identifier.tla", cfg="_gen_Identifier_mc.cfg", workers=4, timeout=900)
    if mc.error or mc.timed_out or mc.violated:
        rep.machinery("Identifier.tla theorems failed: %s %s" % (mc.violated, mc.error))
        return rep.finish()
    jobs = [(None, L)] + [(c, L) for c in ALPHA]
    parts = C.fork_map(scan_worker, jobs, timeout=3000)
    obs = {"L": L, "names": [], "abs": [], "absnp": [], "rel": [], "parsed": [], "outdirs": []}
    total = 0
    for p in parts:
        if p is None or "_error" in p or "_timeout" in p:
            rep.machinery("scan failed: %s" % str(p)[:500])
            return rep.finish()
        total += p["count"]
        for k in ("names", "abs", "absnp", "rel", "parsed"):
            obs[k] += p[k]
    obs["outdirs"] = C.fork_map(lambda _: outdir_table(), [0])[0]
    special = C.fork_map(lambda _: special_rows(), [0])[0]
    if not isinstance(special, list):
        rep.machinery("special identifiers failed: %s" % str(special)[:400])
        return rep.finish()
    obs["parsed"] += special
    rep.cov["identifiers_with_reserved_words"] = len(special)
    with C.Scratch("c20") as d:
        fpath = os.path.join(d, "obs.json")
        with open(fpath, "w") as f:
            json.dump(obs, f)
        with open(os.path.join(C.SPECS, "_gen_Identifier_obs.cfg"), "w") as f:
            f.write("CONSTANT L = 3\nSPECIFICATION Spec\nINVARIANT ObsJudge\nCHECK_DEADLOCK FALSE\n")
        jr = C.run_tlc("Identifier.tla", cfg="_gen_Identifier_obs.cfg", workers=1, timeout=1800, env={"TRACE_FILE": fpath})
    out = C.tlc_printed_json(jr)
    if jr.error or not out:
        rep.machinery("Identifier judge failed: %s" % (jr.error or jr.output[-1500:]))
        return rep.finish()
    v = out[0]

    def dec(seq):
        return "".join(ALPHA[c - 1] for c in seq)
    for cl in sorted(set(v["viol"]) & CLAUSES):
        extra = {k: [dec(x) for x in v[k]][:8] for k in ("extraNames", "extraAbs", "missingAbs", "extraRel")}
        newline = any("\n" in x for k in extra for x in extra[k])
        rep.violation({"clause": cl, "trailing_newline_only": newline and all(
            x.endswith("\n") and "\n" not in x[:-1] for k in ("extraNames", "extraAbs", "extraRel") for x in extra[k])},
            {"L": L}, "accepted set differs from the grammar: %s" % json.dumps(extra))
    # relative identifiers resolve against the directory of the COND file that lists them
    scns = []
    for k, pkgs in enumerate([["", "p", "p/q"], ["p/q", "", "p"], ["p", "p/q", ""]]):
        tasks = []
        for pk in pkgs:
            tasks.append({"pkg": pk, "name": "n", "kind": "run_command", "deps": [], "run": "true"})
            tasks.append({"pkg": pk, "name": "top", "kind": "run_command", "deps": [":n"], "run": "true"})
        tasks.append({"pkg": "", "name": "all", "kind": "group", "deps": ["//%s:top" % pk for pk in pkgs]})
        scns.append({"project": {"config": "disable_git = true\n", "tasks": tasks}, "argv": ["run", "//:all"],
                     "clock": 1000, "sched": {"seed": k}})
    # ... also when the COND file is reached through a symbolic link: kept in a shared directory, or ONE file linked into two
    # packages (":n" then means //p:n in p and //p/q:n in p/q)
    import copy
    for base_scn in list(scns):
        s1 = copy.deepcopy(base_scn)
        s1["cond_symlinks"] = True
        scns.append(s1)
    s2 = copy.deepcopy(scns[0])
    s2["project"]["tasks"] = [t for t in s2["project"]["tasks"] if t["pkg"] != ""] + [
        {"pkg": "", "name": "all", "kind": "group", "deps": ["//p:top", "//p/q:top"]}]
    s2["project"]["tasks"] = [t for i, t in enumerate(s2["project"]["tasks"]) if not (t["name"] == "all" and i < len(s2["project"]["tasks"]) - 1)]
    s2["cond_links"] = {"p/q": "p"}
    scns.append(s2)
    results = RC.run_batch(scns)
    verdicts, traces, errs, tr = RC.judge_batch(scns, results)
    for i, r in errs:
        rep.machinery("relative-identifier run failed: %s" % str(r)[:400])
    for i, cl in verdicts.items():
        bad = sorted(set(cl) & CLAUSES)
        if bad:
            rep.violation({"clause": bad[0], "relative": True}, scns[i], "relative identifier resolution: %s" % bad)
    # different VERSIONS of one identifier never share a directory either: an execution that failed leaves its directory
    # behind; the next execution of the same (nested) task within the same second must get another one
    from .. import store as S_
    from .. import storegen as G_
    hs = []
    k_ = 0
    for tgt_ in ("//pk:b", "//w_task_3:w", "//:d", "//:all"):
        for clock_ in range(100, 106):          # one of these is the second the failed execution of the target was planned in
            rng_ = random.Random(1000)
            proj_ = G_.base_project(rng_)
            st0 = G_.run_step(rng_, 100, target="//:all", again=False, p_fail=0.0)
            st0["exits"] = {nm: 3 for _p, nm in G_.EXPS if nm != "a"}
            st1 = G_.run_step(rng_, clock_, target=tgt_, again=False, p_fail=0.0)
            hs.append({"project": proj_, "steps": [st0, st1], "tag": k_})
            k_ += 1
    # ... nor a version that arrives through `cond restore`: the same task ran at the same second in another clone (successfully
    # there, failing here); restoring the other clone's archive must not merge into the directory the failed execution left
    for v_ in range(4):
        rng_ = random.Random(2000 + v_)
        proj_ = G_.base_project(rng_)
        st_fail = G_.run_step(rng_, 100, target="//:all", again=False, p_fail=0.0)
        st_fail["exits"] = {nm: 3 for _p, nm in G_.EXPS if nm != "a"}
        # (archive one experiment that depends on nothing: every other version of the archive would already be recorded here)
        free_ = [t for t in proj_["tasks"] if t["kind"] == "run_experiment" and not t["deps"] and t["name"] != "a"]
        tgt_id_ = "//%s:%s" % (free_[v_ % len(free_)]["pkg"], free_[v_ % len(free_)]["name"]) if free_ else "//:d"
        hs.append({"project": proj_, "tag": 100 + v_, "steps": [
            {"cmd": "copyproject", "name": "donor"},
            dict(G_.run_step(rng_, 100, target="//:all", again=False, p_fail=0.0), project="donor"),
            {"cmd": "archive", "argv": ["archive", tgt_id_, "-o", "../D.tar.gz"], "out": "../D.tar.gz", "sel": {}, "project": "donor"},
            st_fail,
            {"cmd": "restore", "argv": ["restore", "../D.tar.gz"], "archive": "../D.tar.gz", "defect": "none"}]})
    hres = C.fork_map(S_.run_history, hs, timeout=600)
    htraces = []
    for i_, (sc_, h_) in enumerate(zip(hs, hres)):
        if h_ is None or "_error" in h_ or "_timeout" in h_ or "steps" not in h_:
            rep.machinery("version-directory history failed: %s" % str(h_)[:300])
            continue
        htraces.append(S_.to_store_trace(i_, sc_, h_))
    if htraces:
        hverd, _htr = S_.judge(htraces)
        for t_ in htraces:
            badv = sorted({c for _st, c in hverd[t_["id"]]} & {"DirFresh", "DirEmptyAtStart", "IdUnique", "CannotCompleteMeansUnchanged",
                                                                  "RecordedImmutable"})
            if badv:
                rep.violation({"clause": "DistinctOutputDirs", "versions": True}, hs[t_["id"]],
                              "two executions of one task shared an output directory (%s)" % badv)
    rep.cov.update({
        "states": max(1, mc.distinct), "transitions": max(1, mc.generated),
        "traces_validated_against_impl": 1 + len(verdicts),
        "evaluations": total, "distinct_nontrivial": len(obs["absnp"]) + len(obs["names"]) + len(obs["rel"]),
        "accepted": {k: len(obs[k]) for k in ("names", "abs", "absnp", "rel")},
        "outdir_pairs": len(obs["outdirs"]),
        "rule": "every string of length <= %d over %r run through is_name_valid / from_str(require_prefix both ways) / "
                "from_relative_str; non-trivial = accepted by at least one of them; TLC compares the accepted sets with the "
                "grammar-generated sets and checks parse/print and output-directory injectivity on the observed table" % (L, ALPHA),
        "exhaustive": True,
        "explanation": "Identifier.tla's theorems are constant-level formulas evaluated by TLC over all %d^<=%d strings (no state "
                       "space)" % (len(ALPHA), min(L, 5)),
    })
    rep.add_sample({"string": "//a/Z:0-", "parsed": [p for p in obs["parsed"] if p[0] == enc("//a/Z:0-")][:1]})
    return rep.finish()


def replay(path):
    return main("quick")
