"""C05 - cached-result selection follows the documented compatibility rule.

RelevanceCore.tla: declarative MostRelevant / MustRun / ArgsVerdict and the code's two loops; TLC checks loop = rule for
every commit DAG with <= 4 commits (<= 2 parents each), every HEAD, every set of <= 3 rows (NULL / unknown / any commit),
every flag.  TLC exports the instances; each is built as a REAL git repository (commit-tree), a real version index and
real version directories, and three channels of the real code are observed - `cond where`, `cond run` (spawned vs
"using cached results", under the FakeKernel) and the COND_DEPS a dependent receives - and judged by TLC
(Relevance_Trace.tla).  --at-least commits are named as full hash, short hash, branch, lightweight tag, annotated tag.
"""
import json
import os
import random
import re
import shutil
import tempfile

from .. import common as C
from .. import fakekernel as FK
from .. import project as P
from .. import runcheck as RC
from . import c14

PROP = "C05"
CLAUSES = {"WhereIsMostRelevant", "FlagValidation", "NothingRunsWhenRejected", "RunIffMustRun", "CachedLineIffReused",
           "DependentSeesSelected"}
COND_SRC = "run_experiment(name='e', run='true')\nrun_command(name='t', run='true', deps=[':e'])\n"
STYLES = ["hash", "short", "branch", "tag", "atag"]


def export(nc, timeout=1800):
    with open(os.path.join(C.SPECS, "_gen_Relevance_export.cfg"), "w") as f:
        f.write("CONSTANT NC = %d\nCONSTANT MaxTs = 3\nSPECIFICATION Spec\nINVARIANT Export\nCHECK_DEADLOCK FALSE\n" % nc)
    res = C.run_tlc("Relevance.tla", cfg="_gen_Relevance_export.cfg", workers=1, timeout=timeout)
    if res.error or res.timed_out:
        raise C.MachineryError("Relevance export failed: %s" % (res.error or "timeout"))
    return C.tlc_printed_json(res)


def model_check(nc, timeout=1800):
    with open(os.path.join(C.SPECS, "_gen_Relevance_mc.cfg"), "w") as f:
        f.write("CONSTANT NC = %d\nCONSTANT MaxTs = 3\nSPECIFICATION Spec\nINVARIANT AlgoMatchesRule\n"
                "INVARIANT NeverNonAncestor\nCHECK_DEADLOCK FALSE\n" % nc)
    return C.run_tlc("Relevance.tla", cfg="_gen_Relevance_mc.cfg", timeout=timeout)


def build_universe(root, u, repo=None):
    """repo: the directory of the git repository when it is NOT the project root (the project lives in a sub-directory of it)"""
    os.makedirs(root)
    mode = u["mode"]
    with open(os.path.join(root, "cond_config.toml"), "w") as f:
        f.write("disable_git = true\n" if mode == "disabled" else "")
    with open(os.path.join(root, "COND"), "w") as f:
        f.write(COND_SRC)
    with open(os.path.join(root, ".gitignore"), "w") as f:
        f.write("cond-out/\n")
    hashes = {}
    if mode == "nogit":
        return hashes
    root = repo or root          # every git command below runs in the repository's top directory
    P.git(root, "init", "-q")
    if mode == "nocommit":
        return hashes
    P.git(root, "add", "-A")
    tree = P.git(root, "write-tree")
    for c in range(1, u["nc"] + 1):
        args = ["commit-tree", tree, "-m", "c%d" % c]
        for p in sorted(u["parents"][c - 1]):
            args += ["-p", hashes[p]]
        hashes[c] = P.git(root, *args)
        P.git(root, "update-ref", "refs/heads/b%d" % c, hashes[c])
        P.git(root, "tag", "lt%d" % c, hashes[c])
        P.git(root, "tag", "-a", "at%d" % c, "-m", "annotated", hashes[c])
    return hashes


def name_commit(style, c, hashes):
    return {"hash": hashes[c], "short": hashes[c][:10], "branch": "b%d" % c, "tag": "lt%d" % c, "atag": "at%d" % c}[style]


def _fk_child(job):
    root, argv = job
    return FK.run_cond({"argv": argv, "clock": 1000, "sched": {"mode": "script", "choices": []}}, root)


def universe_worker(job):
    u, scns = job
    d = tempfile.mkdtemp(prefix="cvc05_", dir=C.scratch_root())
    out = []
    # git children inherit fd 2 ("fatal: Not a valid commit name" for unknown hashes): keep the check's output clean
    dn = os.open(os.devnull, os.O_WRONLY)
    os.dup2(dn, 2)
    try:
        root = os.path.join(d, "p")
        if u.get("nested"):
            # the Conductor project is a sub-directory of the git repository (.git one level up)
            os.makedirs(root)
            root = os.path.join(root, "proj")
            hashes = build_universe(root, u, repo=os.path.join(d, "p"))
        else:
            hashes = build_universe(root, u)
        unknown = "0123456789abcdef0123456789abcdef01234567"
        for s in scns:
            if hashes:
                P.git(root, "checkout", "-q", "-f", "--detach", hashes[u["head"]])
            shutil.rmtree(os.path.join(root, "cond-out"), ignore_errors=True)
            rows = []
            for ts, c in s["rows"]:
                commit = None if c == 0 else (hashes.get(c) if c <= u["nc"] else unknown)
                if c != 0 and commit is None:
                    commit = unknown if c > u["nc"] else "%040x" % c     # non-git modes: any string
                rows.append({"task": "//:e", "ts": ts, "commit": commit, "dirty": False})
            # the ORDER in which versions entered the index (a restore of an older archive after newer runs, a merge of two
            # clones) is no part of the abstract state: insert in a scenario-dependent order
            order = list(rows)
            random.Random(str(s.get("id")) + repr(s["rows"])).shuffle(order)
            P.write_index(root, order)
            for r in rows:
                os.makedirs(os.path.join(root, "cond-out", "e.task.%d" % r["ts"]), exist_ok=True)
                with open(os.path.join(root, "cond-out", "e.task.%d" % r["ts"], "data"), "w") as f:
                    f.write("x")
            code, err = c14.mini_cli(["where", "//:e"], root)
            where = 0
            if code == 0:
                pass
            # mini_cli swallows stdout; run again capturing it
            import io, sys
            import conductor.__main__ as cm
            os.chdir(root)
            sys.argv = ["cond", "where", "//:e"]
            so = sys.stdout
            sys.stdout = io.StringIO()
            se = sys.stderr
            sys.stderr = io.StringIO()
            try:
                try:
                    cm.main()
                    wcode = 0
                except SystemExit as e:
                    wcode = e.code or 0
                wout = sys.stdout.getvalue()
            finally:
                sys.stdout, sys.stderr = so, se
            m = re.search(r"e\.task\.(\d+)\s*$", wout.strip()) if wcode == 0 else None
            where = int(m.group(1)) if m else 0
            argv = ["run", "//:t"]
            if s["again"]:
                argv.append("--again")
            if s["thiscommit"]:
                argv.append("--this-commit")
            if s["atleast"]:
                if s["cValid"] and hashes:
                    sym = name_commit(s["style"], s["c"], hashes)
                elif s["cValid"]:
                    sym = "HEAD"
                else:
                    sym = "no-such-ref"
                argv += ["--at-least", sym]
            res = C.fork_map(_fk_child, [(root, argv)], nproc=1, timeout=600)[0]
            if res is None or "_error" in res or "_timeout" in res:
                out.append({"_error": str(res)[:500], "id": s["id"]})
                continue
            evs = res["events"]
            ran = any(e["e"] == "Spawn" and e["t"] == "//:e" for e in evs)
            cached = any(e["e"] == "Line" and e["kind"] == "cached" and e["t"] == "//:e" for e in evs)
            dep_ts = 0
            for e in evs:
                if e["e"] == "Spawn" and e["t"] == "//:t":
                    mm = re.search(r"e\.task\.(\d+)$", e["env"].get("COND_DEPS") or "")
                    dep_ts = int(mm.group(1)) if mm else 0
            spawned_any = any(e["e"] == "Spawn" for e in evs)
            rejected = res["status"] != 0 and not spawned_any and not any(e["e"] == "Line" for e in evs)
            out.append({"id": s["id"], "nc": u["nc"], "parents": [sorted(x) for x in u["parents"]], "head": u["head"],
                        "mode": u["mode"], "rows": [list(r) for r in s["rows"]], "again": s["again"], "atleast": s["atleast"],
                        "thiscommit": s["thiscommit"], "cValid": s["cValid"], "c": s["c"], "where": where, "ran": ran,
                        "cached": cached, "depTs": dep_ts, "rejected": rejected, "maxTs": max([r[0] for r in s["rows"]] or [0]),
                        "style": s.get("style"), "exit": res["status"], "stderr": res["stderr"][-300:]})
        return out
    finally:
        os.chdir("/")
        shutil.rmtree(d, ignore_errors=True)


def judge(rows, timeout=1800):
    keys = ("id", "nc", "parents", "head", "mode", "rows", "again", "atleast", "thiscommit", "cValid", "c", "where", "ran",
            "cached", "depTs", "rejected", "maxTs")
    with C.Scratch("rjudge") as d:
        f = os.path.join(d, "rows.ndjson")
        with open(f, "w") as fh:
            for r in rows:
                fh.write(json.dumps({k: r[k] for k in keys}) + "\n")
        res = C.run_tlc("Relevance_Trace.tla", cfg="Relevance_Trace.cfg", workers=1, timeout=timeout, env={"TRACE_FILE": f})
    out = {}
    for v in C.tlc_printed_json(res):
        if isinstance(v, dict) and "id" in v:
            out[v["id"]] = v
    if res.error or res.timed_out or len(out) != len(rows):
        raise C.MachineryError("Relevance judge failed (%d/%d): %s" % (len(out), len(rows), res.error or res.output[-1500:]))
    return out, res


def main(tier):
    rep = C.Report(PROP, tier, "model_checking")
    rng = random.Random(rep.seed + 5)
    RC.warm()
    nc = 3 if tier == "quick" else 4
    mc = model_check(nc)
    if mc.error or mc.timed_out:
        rep.machinery("TLC Relevance model check failed: %s" % (mc.error or "timeout"))
        return rep.finish()
    if mc.violated:
        rep.drift.append("Relevance.tla: the algorithmic half violates %s" % mc.violated)
    insts = export(3)
    rng.shuffle(insts)
    n = 500 if tier == "quick" else 9000
    # prefer interesting instances: several rows, merges
    insts.sort(key=lambda x: -(len(x["rows"]) + (1 if x["flag"][0] == "atleast" else 0)))
    pick = insts[: n // 2] + rng.sample(insts[n // 2:], min(len(insts) - n // 2, n // 2))
    # strata that a random sample hits rarely: every recorded version is commit-less and a commit flag is given
    nullish = [x for x in insts if x["rows"] and all(r[1] == 0 for r in x["rows"]) and x["flag"][0] == "atleast"]
    unknownish = [x for x in insts if x["rows"] and all(r[1] == x["u"]["nc"] + 1 for r in x["rows"]) and x["u"]["mode"] == "git"]
    pick += rng.sample(nullish, min(len(nullish), 40 if tier == "quick" else 400))
    pick += rng.sample(unknownish, min(len(unknownish), 20 if tier == "quick" else 200))
    by_u = {}
    sid = 0
    for x in pick:
        u = x["u"]
        key = json.dumps([u["parents"], u["head"], u["mode"]])
        fl = x["flag"]
        s = {"id": sid, "rows": x["rows"], "again": fl[0] == "again", "atleast": fl[0] == "atleast", "thiscommit": False,
             "cValid": True, "c": fl[1] if fl[0] == "atleast" else 0, "style": STYLES[sid % len(STYLES)]}
        if s["atleast"] and s["c"] == u["head"] and sid % 3 == 0:
            s["atleast"], s["thiscommit"] = False, True
        sid += 1
        by_u.setdefault(key, (u, []))[1].append(s)
        # flag-validation variants on a fraction of instances
        if sid % 9 == 0:
            non_anc = [c for c in range(1, u["nc"] + 1)]
            for var in ("both", "again+commit", "badsymbol", "notancestor"):
                v = dict(s, id=sid, style="hash")
                if var == "both":
                    v.update(atleast=True, thiscommit=True, again=False, c=u["head"])
                elif var == "again+commit":
                    v.update(again=True, thiscommit=True, atleast=False, c=u["head"])
                elif var == "badsymbol":
                    v.update(atleast=True, thiscommit=False, again=False, cValid=False, c=0)
                else:
                    v.update(atleast=True, thiscommit=False, again=False, c=rng.choice(non_anc))
                sid += 1
                by_u[key][1].append(v)
    jobs = list(by_u.values())
    # every third git universe: the project root is a sub-directory of the repository
    jobs = [(dict(u, nested=(i % 3 == 2 and u["mode"] in ("git", "nocommit"))), ss) for i, (u, ss) in enumerate(jobs)]
    rows = []
    for r in C.fork_map(universe_worker, jobs, timeout=3000):
        if r is None or isinstance(r, dict):
            rep.machinery("universe failed: %s" % str(r)[:600])
            continue
        for x in r:
            if "_error" in x:
                rep.machinery("scenario failed: %s" % x["_error"])
            else:
                rows.append(x)
    verdicts, tr = judge(rows)
    nontriv = 0
    for r in rows:
        v = verdicts[r["id"]]
        if len(r["rows"]) >= 2 or r["atleast"] or r["thiscommit"]:
            nontriv += 1
        bad = sorted(set(v["viol"]) & CLAUSES)
        if bad:
            rep.violation({"clause": bad[0], "named_by_annotated_tag": bool(r["atleast"] and r["cValid"] and r.get("style") == "atag"),
                           "mode": r["mode"]},
                          {"u": {"nc": r["nc"], "parents": r["parents"], "head": r["head"], "mode": r["mode"]},
                           "s": {k: r[k] for k in ("rows", "again", "atleast", "thiscommit", "cValid", "c", "style")}},
                          "universe parents=%s HEAD=c%d mode=%s rows(ts,commit)=%s flag again=%s atleast=%s(c%s as %s) this-commit=%s: "
                          "where->%s ran=%s cached=%s dependent saw %s rejected=%s; rule selects %s: %s" % (
                              r["parents"], r["head"], r["mode"], r["rows"], r["again"], r["atleast"], r["c"], r.get("style"),
                              r["thiscommit"], r["where"], r["ran"], r["cached"], r["depTs"], r["rejected"], v["sel"], bad))
    rep.cov.update({
        "states": mc.distinct, "transitions": mc.generated, "traces_validated_against_impl": len(rows),
        "evaluations": len(rows), "distinct_nontrivial": nontriv, "real_git_universes": len(jobs),
        "rule": "instances exported by TLC from Relevance.tla (all commit DAGs on 3 commits x HEAD x row sets x flags, plus the "
                "three non-git modes), each built with real git (commit-tree, branches, lightweight and annotated tags); "
                "flag-validation variants added to every 9th; non-trivial = >= 2 rows or a commit flag",
        "model_nc": nc,
    })
    rep.add_sample(rows[0] if rows else {})
    rep.assumptions += ["distance = number of commits reachable from HEAD and not from the version's commit (git rev-list --count)"]
    return rep.finish()


def replay(path):
    with open(path) as f:
        body = json.load(f)
    RC.warm()
    sc = body["scenario"]
    s = dict(sc["s"], id=0)
    r = C.fork_map(universe_worker, [(sc["u"], [s])], timeout=300)[0]
    verdicts, _ = judge(r)
    print(json.dumps(r[0]), verdicts[0])
    if set(verdicts[0]["viol"]) & CLAUSES:
        print("VIOLATION property=%s replay=%s" % (PROP, path))
        return 1
    return 0
