"""C19 - run_experiment_group is exactly its documented expansion (translation validation).

Schema.tla: Expand(g) and Rejected(g, others); TLC enumerates 4854 abstract groups (0-3 instances, name clashes with
each other / the group / another task, args, options, parallelizable, shared deps, chaining) and exports each with its
expansion.  For each, the harness writes the GROUP form and the EXPLICIT form generated from the specification's
expansion, loads both with the real TaskIndex (materialised graphs must be equal; rejected iff the specification says
so) and executes both under the FakeKernel with the same schedule: the group-form execution is judged by TLC (RunObs)
against the contract of the explicit task list, and the two spawn traces must be equal.
"""
import json
import os
import random
import shutil
import tempfile
import warnings

from .. import common as C
from .. import fakekernel as FK
from .. import project as P
from .. import runcheck as RC
from .. import runobs as R
from . import c14

PROP = "C19"
CLAUSES = {"OnlyNeeded", "AtMostOnce", "StartAfterDepsExit0", "NoOverlapWithDependency", "EnvArgv", "EnvDeps", "EnvName",
           "EnvOut", "EnvCwd", "SlotIffParallel", "TotalIsNeeded", "ExitZeroIffAllSucceeded", "OneOutcomeEach",
           "GroupRejectedIffExpansionRejected", "SameTaskGraph", "SameExecution"}


BAD_ARGS = ["('x', 1)", "'xy'", "(a for a in [1, 2])", "{'a': 1}"]
BAD_OPTS = ["[('threads', 1)]", "(('k', 2),)", "'k=2'"]


def conc(tok):
    try:
        return int(tok)
    except ValueError:
        return tok


class RawPy:
    """A Python expression to be written verbatim into the COND file (for ill-typed values)."""

    def __init__(self, src):
        self.src = src

    def __repr__(self):
        return self.src

    def __bool__(self):
        return True


def neighbour(g, k):
    """every 4th program has a NEIGHBOUR package whose own group uses the same instance names (//nb:e1 and //:e1 are different
    tasks); d1 depends on it, so both groups are loaded by one invocation whenever the group under test depends on d1"""
    if k % 4 != 3:
        return None
    names = sorted({i["name"] for i in g["insts"]}) or ["e1"]
    return names


def group_source(g, k):
    insts = []
    for i in g["insts"]:
        parts = ["name=%r" % i["name"]]
        if i["args"] == ["__BAD__"]:
            parts.append("args=%s" % BAD_ARGS[k % len(BAD_ARGS)])
        elif i["args"] or k % 2:
            parts.append("args=%r" % [conc(a) for a in i["args"]])
        if i["opts"] == [["__BAD__", "x"]]:
            parts.append("options=%s" % BAD_OPTS[k % len(BAD_OPTS)])
        elif i["opts"] or k % 3 == 0:
            parts.append("options=%r" % {o[0]: conc(o[1]) for o in i["opts"]})
        if i["par"] or k % 2 == 0:
            parts.append("parallelizable=%r" % bool(i["par"]))
        insts.append("ExperimentInstance(%s)" % ", ".join(parts))
    src = "run_command(name='d1', run='true'%s)\nrun_command(name='d2', run='true')\n" % (
        ", deps=['//nb:nbg']" if neighbour(g, k) else "")
    # `experiments` is any Iterable[ExperimentInstance]: a list, a tuple, or a one-shot iterable (generator, iter(...), map)
    lst = "[%s]" % ", ".join(insts)
    container = [lst, "tuple(%s)" % lst, "(e for e in %s)" % lst, "iter(%s)" % lst, lst, "map(lambda e: e, %s)" % lst][(k // 2) % 6]
    args = ["name=%r" % g["name"], "run=%r" % (g["run"] + RUN_SUFFIX[k % len(RUN_SUFFIX)]), "experiments=%s" % container]
    if g["chain"] or k % 2:
        args.append("chain_experiments=%r" % bool(g["chain"]))
    if g["deps"] or k % 3 == 1:
        args.append("deps=%r" % list(g["deps"]))
    return src + "run_experiment_group(%s)\n" % ", ".join(args)


# the command string is passed on VERBATIM (surrounding blanks included): the expansion runs `run + " " + args...`
RUN_SUFFIX = ["", "", " ", "", "  "]


def explicit_tasks(expansion, k=0, nb=None):
    tasks = [{"pkg": "", "name": "d1", "kind": "run_command", "deps": ["//nb:nbg"] if nb else [], "run": "true"},
             {"pkg": "", "name": "d2", "kind": "run_command", "deps": [], "run": "true"}]
    if nb:
        tasks += [{"pkg": "nb", "name": n, "kind": "run_experiment", "deps": [], "run": "true"} for n in nb]
        tasks.append({"pkg": "nb", "name": "nbg", "kind": "combine", "deps": [":%s" % n for n in nb]})
    for d in expansion:
        if d["ctor"] == "run_experiment":
            tasks.append({"pkg": "", "name": d["name"], "kind": "run_experiment", "deps": list(d["deps"]),
                          "run": d["run"] + RUN_SUFFIX[k % len(RUN_SUFFIX)],
                          "par": bool(d["par"]), "args": RawPy("('x', 1)") if d["args"] == ["__BAD__"] else [conc(a) for a in d["args"]],
                          "options": RawPy("[('threads', 1)]") if d["opts"] == [["__BAD__", "x"]] else {o[0]: conc(o[1]) for o in d["opts"]},
                          "force_deps": True})
        else:
            tasks.append({"pkg": "", "name": d["name"], "kind": "combine", "deps": list(d["deps"]), "force_deps": True})
    return tasks


def graph_dump(root):
    """Materialised task graph of //:g as the real TaskIndex loads it (or the rejection)."""
    warnings.simplefilter("ignore")
    import pathlib
    from conductor.parsing.task_index import TaskIndex
    from conductor.task_identifier import TaskIdentifier
    from conductor.errors import ConductorError
    ti = TaskIndex(pathlib.Path(root))
    try:
        ti.load_transitive_closure(TaskIdentifier.from_str("//:g"))
    except ConductorError as e:
        return {"rejected": type(e).__name__}
    out = {}
    for ident, t in ti.get_all_loaded_tasks().items():
        rec = {"cls": type(t).__name__, "deps": [str(d) for d in t.deps], "par": bool(t.parallelizable)}
        if hasattr(t, "args"):
            rec["argv"] = " ".join([t.raw_run, t.args.serialize_cmdline(), t.options.serialize_cmdline()])
        out[str(ident)] = rec
    return {"rejected": None, "tasks": out}


def pair_worker(job):
    inst, k = job
    d = tempfile.mkdtemp(prefix="cvc19_", dir=C.scratch_root())
    try:
        nb = neighbour(inst["g"], k)
        tasks = explicit_tasks(inst["expansion"], k, nb)
        projE = {"config": "disable_git = true\n", "tasks": tasks}
        rootE, rootG = os.path.join(d, "e"), os.path.join(d, "g")
        P.write_project(rootE, projE)
        raw = {"": group_source(inst["g"], k)}
        if nb:
            raw["nb"] = "run_experiment_group(name='nbg', run='true', experiments=[ExperimentInstance(name=n) for n in %r])\n" % nb
        P.write_project(rootG, {"config": "disable_git = true\n", "tasks": [], "raw_cond": raw})
        gE, gG = graph_dump(rootE), graph_dump(rootG)
        res = {"gE": gE, "gG": gG, "k": k}
        if gE["rejected"] is None and gG["rejected"] is None:
            jobs = 1 + k % 3
            argv = ["run", "//:g"] + (["-j", str(jobs)] if jobs > 1 else [])
            sched = {"seed": k, "p_exit": 0.3, "p_deliver": 0.6}
            scn = {"project": projE, "argv": argv, "clock": 1000, "sched": sched}
            rE = C.fork_map(lambda _: FK.run_cond(scn, rootE), [0], nproc=1)[0]
            rG = C.fork_map(lambda _: FK.run_cond(scn, rootG), [0], nproc=1)[0]
            res.update({"scn": scn, "rE": rE, "rG": rG})
        return res
    finally:
        shutil.rmtree(d, ignore_errors=True)


def norm_events(res, root_marker="/p"):
    out = []
    for e in res["events"]:
        if e["e"] == "Spawn":
            env = e["env"]
            out.append(("Spawn", e["t"], e["argv"][2].split(), os.path.basename(env.get("COND_OUT") or ""),
                        [os.path.basename(p) for p in (env.get("COND_DEPS") or "").split(":") if p], env.get("COND_SLOT")))
        elif e["e"] == "Line":
            out.append(("Line", e["kind"], e["t"], e.get("k"), e.get("n")))
        elif e["e"] == "Exit":
            out.append(("Exit", e["t"]))
        elif e["e"] == "Return":
            out.append(("Return", e["exit"], e["failed"], e["skipped"]))
    return out


def main(tier):
    rep = C.Report(PROP, tier, "translation_validation")
    rng = random.Random(rep.seed + 19)
    RC.warm()
    with open(os.path.join(C.SPECS, "_gen_Schema_export.cfg"), "w") as f:
        f.write("SPECIFICATION Spec\nINVARIANT ExpansionShape\nINVARIANT Export\nCHECK_DEADLOCK FALSE\n")
    ex = C.run_tlc("Schema.tla", cfg="_gen_Schema_export.cfg", workers=1, timeout=900)
    if ex.error or ex.timed_out or ex.violated:
        rep.machinery("Schema.tla export failed: %s %s" % (ex.violated, ex.error))
        return rep.finish()
    insts = C.tlc_printed_json(ex)
    rng.shuffle(insts)
    if tier == "quick":
        three = [i for i in insts if len(i["g"]["insts"]) >= 3 or any(x["args"] == ["__BAD__"] or x["opts"] == [["__BAD__", "x"]] for x in i["g"]["insts"])]
        rej = [i for i in insts if i["rejected"] and len(i["g"]["insts"]) < 3][:100]
        acc = [i for i in insts if not i["rejected"] and len(i["g"]["insts"]) < 3][:350]
        insts = three + rej + acc
    res = C.fork_map(pair_worker, [(inst, k) for k, inst in enumerate(insts)], timeout=1200)
    traces, meta = [], {}
    disagreements = 0
    for k, (inst, r) in enumerate(zip(insts, res)):
        if r is None or "_error" in r or "_timeout" in r:
            rep.machinery("pair %d failed: %s" % (k, str(r)[:600]))
            continue
        rejG, rejE = r["gG"]["rejected"], r["gE"]["rejected"]
        scn_id = {"g": inst["g"], "k": k}
        if (rejG is not None) != bool(inst["rejected"]) or (rejE is not None) != bool(inst["rejected"]):
            disagreements += 1
            rep.violation({"clause": "GroupRejectedIffExpansionRejected"}, scn_id,
                          "group %s: specification says rejected=%s; group form -> %s, explicit form -> %s" % (
                              json.dumps(inst["g"]), inst["rejected"], rejG, rejE))
            continue
        if rejG is not None:
            continue
        if r["gG"]["tasks"] != r["gE"]["tasks"]:
            disagreements += 1
            diff = {t: (r["gG"]["tasks"].get(t), r["gE"]["tasks"].get(t)) for t in set(r["gG"]["tasks"]) | set(r["gE"]["tasks"])
                    if r["gG"]["tasks"].get(t) != r["gE"]["tasks"].get(t)}
            rep.violation({"clause": "SameTaskGraph"}, scn_id, "group %s: loaded graphs differ: %s" % (json.dumps(inst["g"]), diff))
            continue
        for form in ("rG", "rE"):
            rr = r[form]
            if rr is None or "_error" in rr or "_timeout" in rr:
                rep.machinery("execution failed: %s" % str(rr)[:400])
                break
        else:
            if norm_events(r["rG"]) != norm_events(r["rE"]):
                disagreements += 1
                rep.violation({"clause": "SameExecution"}, scn_id, "group %s: executions differ: %s vs %s" % (
                    json.dumps(inst["g"]), norm_events(r["rG"])[:6], norm_events(r["rE"])[:6]))
            t = R.to_obs_trace(len(traces), r["scn"], r["rG"])
            meta[t["id"]] = (k, inst)
            traces.append(t)
    verdicts, tr = R.judge(traces) if traces else ({}, None)
    for tid, cl in verdicts.items():
        bad = sorted(set(cl) & CLAUSES)
        if bad:
            k, inst = meta[tid]
            disagreements += 1
            rep.violation({"clause": bad[0]}, {"g": inst["g"], "k": k},
                          "group %s executed in group form breaks the contract of its expansion: %s" % (json.dumps(inst["g"]), bad))
    rep.cov.update({
        "programs": len(insts), "disagreements_checked": len(insts),
        "evaluations": len(insts), "distinct_nontrivial": sum(1 for i in insts if len(i["g"]["insts"]) >= 1),
        "executed_pairs": len(traces), "rejected_pairs": sum(1 for i in insts if i["rejected"]),
        "traces_validated_against_impl": len(traces),
        "rule": "program = abstract group from Schema.tla (instances 0-2 with names {e1,e2,g,d1}, args, options, parallelizable; deps "
                "{none, [:d1], [:d1, //:d2]}; chaining) in group form and in the explicit form generated from Expand(g)%s" % (
                    " (all three-instance groups + a sample of 450)" if tier == "quick" else " (all)"),
        "exhaustive": tier == "thorough",
    })
    rep.add_sample({"group": insts[0]["g"], "expansion": insts[0]["expansion"], "rejected": insts[0]["rejected"],
                    "group_source": group_source(insts[0]["g"], 0)})
    return rep.finish()


def replay(path):
    with open(path) as f:
        body = json.load(f)
    print(body.get("text"))
    return main("quick")
