"""C11 - archive then restore reproduces exactly the selected versions.

The selection rule (all | --latest | archivable tasks in the named task's transitive closure) and the round-trip
theorem are stated in StoreObs.tla (Selected, ClosureIds, ArchiveClauses, RoundTripClauses); Store.tla's archive /
restore actions are model-checked against them.  Real histories build projects with several versions per task and
arbitrary file trees inside outputs, run the real `cond archive` with every flag combination, restore into a fresh
copy of the project, and TLC judges the projections (index rows, tar member list, tree digests).
"""
import random

from .. import common as C
from .. import storegen as G
from . import storefamily as F
from . import storemodel

PROP = "C11"
CLAUSES = {"ArchiveReadOnly", "ArchiveSelectsExactly", "ArchiveMembersExact", "ArchiveSucceeds", "RoundTripRows",
           "RoundTripTrees", "RestoredTreesIdentical", "ValidRestoreSucceeds", "SuccessMeansAll", "RestoreAddsExactlyArchive"}
TARGETS = [None, None, "//:all", "//pk:b", "//:d", "//:cmd", "//pk/sub:c", "//:grp", "//pk:comb", "//:a"]


def odd_plants(rng, hist_dirs=("a.task.100", "pk/b.task.101")):
    out = []
    for vd in ["a.task.100", "a.task.150", "pk/b.task.101", "pk/sub/c.task.102", "d.task.100", "d.task.103"]:
        if rng.random() < 0.4:
            out.append({"path": "cond-out/%s/results/run 1/täst file.csv" % vd, "kind": "file", "content": "1,2\n",
                        "only_if": "cond-out/%s" % vd})
        if rng.random() < 0.3:
            out.append({"path": "cond-out/%s/empty_dir" % vd, "kind": "dir", "only_if": "cond-out/%s" % vd})
        if rng.random() < 0.3:
            out.append({"path": "cond-out/%s/link_to_payload" % vd, "kind": "symlink", "target": "payload.txt",
                        "only_if": "cond-out/%s" % vd})
        if rng.random() < 0.2:
            out.append({"path": "cond-out/%s/x.task.7/inner.txt" % vd, "kind": "file", "content": "look-alike\n",
                        "only_if": "cond-out/%s" % vd})
        if rng.random() < 0.35:
            # names that archivers, editors and file systems treat specially - results all the same
            for nm in rng.sample([".nfs0001", ".nfs-trace/t.txt", "data/.nfsstat.json", ".gitignore", "core", "-dash.txt", "._meta", "#tmp#",
                                  "a~", ".hidden/.deeper/f", "CVS/Entries", ".svn/x", "name with  spaces .txt", "*.glob[1]?"], 3):
                out.append({"path": "cond-out/%s/%s" % (vd, nm), "kind": "file", "content": "kept\n", "only_if": "cond-out/%s" % vd})
    return out


def scenario(rng, k):
    git = k % 2 == 1
    proj = G.base_project(rng, git=git)
    steps = []
    foreign = (not git) and rng.random() < 0.5
    if foreign:
        # versions made in another clone one second earlier, brought in by restore: a stale version of one task then
        # carries the same id as the newest version of another task, which never happens within one project
        steps += [{"cmd": "copyproject", "name": "donor"},
                  dict(G.run_step(rng, 100, target="//:all", again=False, p_fail=0.0), project="donor"),
                  {"cmd": "archive", "argv": ["archive", "-o", "../D.tar.gz"], "out": "../D.tar.gz", "sel": {}, "project": "donor"}]
    steps.append(G.run_step(rng, 101 if foreign else 100, target="//:all", again=False, p_fail=0.0 if foreign else 0.15))
    if foreign:
        steps.append({"cmd": "restore", "argv": ["restore", "../D.tar.gz"], "archive": "../D.tar.gz"})
    if git and rng.random() < 0.7:
        steps.append({"cmd": "git", "ops": [["checkout", 0]] + ([["dirty"]] if rng.random() < 0.5 else [])})
    for _ in range(rng.randrange(0, 3)):
        steps.append(G.run_step(rng, 150 + 10 * len(steps), target=rng.choice(["//:all", "//:a", "//pk:b", "//:d"]),
                                again=True, p_fail=0.2))
    if git and rng.random() < 0.5:
        # git integration is switched off later on: the newest versions carry no commit, older ones do (some recorded dirty)
        steps.append({"cmd": "setconfig", "text": "disable_git = true\n"})
        for _ in range(rng.randrange(1, 3)):
            steps.append(G.run_step(rng, 400 + 10 * len(steps), target=rng.choice(["//:all", "//:a", "//pk:b"]), again=True, p_fail=0.1))
    steps.append({"cmd": "plant", "entries": odd_plants(rng)})
    if rng.random() < 0.3:
        # the sources moved on: a task with recorded versions is not an experiment (not archivable) any more
        steps.append({"cmd": "retype", "task": rng.choice(["//:a", "//pk:b", "//pk/sub:c", "//:d"]), "kind": "run_command"})
    if rng.random() < 0.2:
        # somebody freed disk space by hand: the directory of a recorded version is gone when the archive is made
        steps.append({"cmd": "plant", "entries": [{"path": "cond-out/" + rng.choice(["a.task.100", "d.task.100", "pk/b.task.101", "a.task.150",
                                                                                 "pk/sub/c.task.102", "d.task.103"]), "kind": "remove"}]})
    task = rng.choice(TARGETS)
    latest = rng.random() < 0.5
    if foreign and rng.random() < 0.6:
        task, latest = None, True
    argv = ["archive"] + ([task] if task else []) + (["--latest"] if latest else []) + ["-o", "../A.tar.gz"]
    sel = {"task": task, "latest": latest}
    steps.append({"cmd": "archive", "argv": argv, "out": "../A.tar.gz", "sel": sel})
    steps.append({"cmd": "copyproject", "name": "p2"})
    if rng.random() < 0.35:
        steps.append({"cmd": "restore", "argv": ["restore", "../A.tar.gz"], "archive": "../A.tar.gz", "project": "p2",
                      "if_exists": "../A.tar.gz", "crash_at": rng.randrange(14, 60), "label": "interrupted"})
        steps.append({"cmd": "gc", "argv": ["gc"], "project": "p2", "if_exists": "../A.tar.gz"})
    steps.append({"cmd": "restore", "argv": ["restore", "../A.tar.gz"], "archive": "../A.tar.gz", "project": "p2",
                  "if_exists": "../A.tar.gz"})
    steps.append({"cmd": "roundtrip", "project": "p2", "sel": sel, "if_exists": "../A.tar.gz"})
    scn = {"project": proj, "steps": steps, "tag": [k, task, latest]}
    if git:
        scn["git"] = {"commits": 2, "dirty": rng.random() < 0.5, "sha256": k % 4 == 3}
    return scn


def sig(scn, h, st, clause):
    raw = h["steps"][st]
    return {"named_task": scn["tag"][1] is not None, "stderr_kind": raw.get("stderr_kind"),
            "integrity_error": "IntegrityError" in (raw.get("stderr") or "")}


def main(tier):
    rep = C.Report(PROP, tier, "model_checking")
    rng = random.Random(rep.seed + 11)
    mc = storemodel.check(rep, tier, PROP)
    if rep.machinery_errors:
        return rep.finish()
    n = 100 if tier == "quick" else 2500
    scns = [scenario(rng, k) for k in range(n)]
    # a long-lived project: many hundreds of recorded versions go through one archive / restore (quick: 700; thorough: 1,100,
    # as all versions and as each task's newest)
    for j, (nb, latest) in enumerate([(700, False)] if tier == "quick" else [(1100, False), (1100, True), (1025, False)]):
        brng = random.Random(rng.randrange(1 << 30))
        sel = {"task": None, "latest": latest}
        scns.append({"project": G.base_project(brng), "tag": [n + j, "bulk", latest], "steps": [
            G.run_step(brng, 100, target="//:all", again=False, p_fail=0.0), {"cmd": "bulk", "n": nb},
            {"cmd": "archive", "argv": ["archive"] + (["--latest"] if latest else []) + ["-o", "../A.tar.gz"], "out": "../A.tar.gz", "sel": sel},
            {"cmd": "copyproject", "name": "p2"},
            {"cmd": "restore", "argv": ["restore", "../A.tar.gz"], "archive": "../A.tar.gz", "project": "p2", "if_exists": "../A.tar.gz"},
            {"cmd": "roundtrip", "project": "p2", "sel": sel, "if_exists": "../A.tar.gz"}]})
    hists, traces, verdicts, tr, other, nontriv = F.run_and_judge(rep, scns, CLAUSES, sig_fn=sig)
    rts = sum(1 for t in traces for s in t["steps"] if s["cmd"] == "roundtrip")
    rep.cov.update({
        "states": mc.distinct, "transitions": mc.generated, "traces_validated_against_impl": len(traces),
        "evaluations": len(scns), "distinct_nontrivial": len(nontriv), "round_trips": rts,
        "rule": "history = run (+0-2 run --again) ; plant odd files/empty dirs/symlinks/look-alikes inside version dirs ; archive "
                "[task in %s] [--latest] -o ; restore into a fresh copy ; compare; distinct by per-step signature + flags" % (
                    [t for t in TARGETS if t]),
        "clauses_of_other_properties_seen": other,
    })
    if traces:
        t = traces[0]
        rep.add_sample({"tag": scns[t["id"]]["tag"], "steps": [[s["cmd"], s["exit"], len(s["before"]["rows"]),
                                                                 len(s["after"]["rows"])] for s in t["steps"]]})
    return rep.finish()


def replay(path):
    return F.replay_history(path, CLAUSES, PROP)


def selftest():
    return F.selftest(PROP)
