"""Common driver of the schedule-exploring `cond run` checks (C01, C03, C04, C09).

Layer 1: Executor.tla (+ PlannerCore.tla) model-checked by TLC: every ordered-deps graph on N tasks, kinds, par flags,
         jobs, stop-early, exit codes, launch failures, every interleaving of child exits / SIGCHLD handler runs.
Layer 2: the real `cond run` under the FakeKernel on graph instances x schedules (seeded random + DFS for tiny ones).
Layer 3: every recorded trace judged by RunObs through TLC; only the clauses of the property at hand are reported.
"""
import json
import os
import random

from .. import common as C
from .. import fakekernel as FK
from .. import runcheck as RC
from .. import runobs as R
from .. import realproc as RP

EXEC_INVS = ["C01", "C02", "C03", "C04", "C09", "PipeMatchesList", "SlotStack", "WaitingCounts"]
MODEL_WAKEUP_FD = True   # SigchldHelper uses signal.set_wakeup_fd and wait() loops (D14 repaired)
MODEL_SECOND_REAPER = False  # the Popen object is kept alive in the handle (D7 repaired)


def exec_cfg(name, n, kinds, maxjobs, stops, launchfail, second_reaper, invs=EXEC_INVS, liveness=True, allow_abort=False,
             job_control=False):
    path = os.path.join(C.SPECS, name)
    with open(path, "w") as f:
        f.write("CONSTANT N = %d\n" % n)
        f.write("CONSTANT Kinds = {%s}\n" % ", ".join('"%s"' % k for k in kinds))
        f.write('CONSTANT Modes = {"default"}\nCONSTANT FixedD1 = TRUE\n')
        f.write("CONSTANT MaxJobs = %d\n" % maxjobs)
        f.write("CONSTANT StopModes = {%s}\n" % ", ".join("TRUE" if s else "FALSE" for s in stops))
        f.write("CONSTANT ExitCodes = {0, 1}\n")
        f.write("CONSTANT LaunchFail = %s\n" % ("TRUE" if launchfail else "FALSE"))
        f.write("CONSTANT SecondReaper = %s\n" % ("TRUE" if second_reaper else "FALSE"))
        f.write("CONSTANT WakeupFd = %s\n" % ("TRUE" if MODEL_WAKEUP_FD else "FALSE"))
        f.write("CONSTANT JobControl = %s\n" % ("TRUE" if job_control else "FALSE"))
        f.write("CONSTANT AllowAbort = %s\n" % ("TRUE" if allow_abort else "FALSE"))
        f.write("SPECIFICATION Spec\n")
        for i in invs:
            f.write("INVARIANT %s\n" % i)
        if liveness:
            f.write("PROPERTY Terminates\n")
        f.write("CHECK_DEADLOCK TRUE\n")
    return name


def model_check(rep, tier, prop, second_reaper):
    """TLC on Executor.tla. Returns (TlcResult, violated invariant names)."""
    if tier == "quick":
        # each check model-checks the slice of the configuration space its property is about (C09: all of it)
        kinds, maxjobs, stops, lfail = {
            "C01": (["exp", "cmd", "group"], 2, [False], False),
            "C03": (["cmd", "group"], 2, [False, True], True),
            "C04": (["cmd", "group"], 3, [False], False),
        }.get(prop, (["exp", "cmd", "group"], 2, [False, True], True))
        # job control (tasks stopped and continued from outside) in the slices about slots and about termination
        cfg = exec_cfg("_gen_Exec_%s.cfg" % prop, 3, kinds, maxjobs, stops, lfail, second_reaper, job_control=prop in ("C04",))
        res = C.run_tlc("Executor.tla", cfg=cfg, timeout=1200)
    else:
        cfg = exec_cfg("_gen_Exec_%s.cfg" % prop, 3, ["exp", "cmd", "group", "combine"], 3, [False, True], True,
                       second_reaper, job_control=prop in ("C04", "C09"))
        res = C.run_tlc("Executor.tla", cfg=cfg, timeout=2400)
    if res.error or (res.timed_out and tier == "quick"):
        rep.machinery("TLC Executor model check failed: %s" % (res.error or "timeout"))
    return res


def make_scenarios(rng, tier, focus, count):
    """focus: 'deps' | 'fail' | 'slots' | 'reap'"""
    scns = []
    for k in range(count):
        n = rng.choice([2, 3, 3, 4, 4, 5] if focus != "slots" else [3, 4, 5, 6])
        kinds = ("exp", "cmd", "group", "combine") if focus != "slots" else ("exp", "cmd", "cmd", "group")
        g = RC.random_graph(rng, n, kinds=kinds, p_cached=0.1 if focus != "deps" else 0.2,
                            p_par=0.75 if focus in ("slots", "reap", "deps") else 0.5,
                            dense=rng.choice([0.3, 0.5, 0.8]))
        if focus == "deps" and k % 6 == 2:
            # --again over experiments that already HAVE recorded versions: everything needed is executed again, in dependency
            # order all the same
            g["again"] = True
            g["cachedTs"] = [5 if (g["kind"][i] == "exp" and rng.random() < 0.7) else 0 for i in range(n)]
            g["lastTs0"] = 5 if any(g["cachedTs"]) else 0
        if focus == "deps" and n >= 3 and rng.random() < 0.5:
            # force the diamond / shared-sub-dependency shapes with both listing orders
            a, b, d = n, n - 1, 1
            g["deps"][b - 1] = [d] + [x for x in g["deps"][b - 1] if x != d]
            rest = [x for x in g["deps"][a - 1] if x not in (b, d)]
            g["deps"][a - 1] = ([b, d] if rng.random() < 0.5 else [d, b]) + rest
        if focus == "slots" and rng.random() < 0.3:
            # a sequential and a parallelizable task become ready together while another parallel task is still running
            n = 5
            kk = lambda: rng.choice(["exp", "cmd"])
            g = {"n": 5, "target": 5, "deps": [[], [], rng.sample([1], 1), [1], rng.sample([2, 3, 4], 3)],
                 "kind": [kk(), kk(), kk(), kk(), rng.choice(["group", "cmd"])], "par": [True, True, False, True, False],
                 "cachedTs": [0] * 5, "stale": [False] * 5, "again": False, "atLeast": False, "now": 1000, "lastTs0": 0}
            if rng.random() < 0.5:
                g["par"][2], g["par"][3] = True, False
            if rng.random() < 0.5:
                # a, b, c parallel roots; s (sequential) depends on a; p (parallel) depends on b; staggered readiness
                g = {"n": 6, "target": 6, "deps": [[], [], [], [1], [2], rng.sample([3, 4, 5], 3)],
                     "kind": [kk(), kk(), kk(), kk(), kk(), "group"], "par": [True, True, True, False, True, False],
                     "cachedTs": [0] * 6, "stale": [False] * 6, "again": False, "atLeast": False, "now": 1000, "lastTs0": 0}
                n = 6
        jobs = rng.choice([1, 2, 2, 3] if focus != "slots" else [1, 2, 3, 3, 4])
        stop = (rng.random() < 0.5) if focus == "fail" else (rng.random() < 0.15)
        codes, fl = {}, []
        pkgs = RC.PLACEMENTS[k % len(RC.PLACEMENTS)][:n]
        pfail = {"fail": 0.35, "deps": 0.15, "slots": 0.1, "reap": 0.15}[focus]
        for t in range(1, n + 1):
            if g["kind"][t - 1] in ("exp", "cmd") and rng.random() < pfail:
                r = rng.random()
                ident = RC.ident_of(pkgs, t)
                if r < 0.5:
                    codes[ident] = rng.choice([1, 2, 127, 255, 128, 129, 126, 64, 254])     # incl. the shell's 128+N boundary
                elif r < 0.75:
                    codes[ident] = {"signal": rng.choice([9, 15, 11, 2])}
                else:
                    fl.append(ident)
        if focus == "fail" and rng.random() < 0.3:
            procs = [t for t in range(1, n + 1) if g["kind"][t - 1] in ("exp", "cmd")]
            if procs:
                ident = RC.ident_of(pkgs, rng.choice(procs))
                codes.pop(ident, None)
                if ident not in fl:
                    fl.append(ident)
        sched = {"seed": rng.randrange(1 << 30), "codes": codes, "fail_launch": fl,
                 "p_exit": rng.choice([0.1, 0.25, 0.6, 0.9]), "p_deliver": rng.choice([0.15, 0.5, 0.9]),
                 "allow_steal": focus == "reap", "allow_late": focus == "reap"}
        if k % 5 == 4:
            # mixed batch: several parallel roots exit (some failing, some not) before ONE handler run reaps them all; each
            # root has its own dependent, so a completion attributed to the wrong task / with the wrong status shows
            w = rng.choice([2, 3, 3, 4])
            n = 2 * w + 1
            kk2 = lambda: rng.choice(["exp", "cmd"])
            g = {"n": n, "target": n, "deps": [[] for _ in range(w)] + [[i + 1] for i in range(w)] + [list(range(w + 1, 2 * w + 1))],
                 "kind": [kk2() for _ in range(2 * w)] + ["group"], "par": [True] * w + [rng.random() < 0.7 for _ in range(w)] + [False],
                 "cachedTs": [0] * n, "stale": [False] * n, "again": False, "atLeast": False, "now": 1000, "lastTs0": 0}
            jobs = rng.choice([w, w, w + 1])
            pkgs = RC.PLACEMENTS[k % len(RC.PLACEMENTS)][:n] if n <= 6 else [""] * n
            codes, fl = {}, []
            failing = rng.sample(range(1, w + 1), rng.choice([1, 1, 2]) if w > 1 else 1)
            for t in failing:
                codes[RC.ident_of(pkgs, t)] = rng.choice([1, 2, 255, 128, {"signal": 9}])
            sched = {"seed": rng.randrange(1 << 30), "codes": codes, "fail_launch": [], "p_exit": 0.9,
                     "p_deliver": rng.choice([0.05, 0.1, 0.2]), "allow_steal": focus == "reap", "allow_late": focus == "reap"}
            stop = False
            if focus == "fail" and rng.random() < 0.5:
                # ... under --stop-early, with fewer slots than roots: a root is still waiting for a slot when a failure and a
                # success are collected together (nothing may be started once the failure has been observed)
                stop = True
                jobs = max(2, w - 1)
        if focus == "slots" and k % 10 == 6:
            # more parallel roots than slots, some of them FAILING while siblings are still running and others wait for a slot:
            # a slot must come back exactly once, however the task ended
            w = rng.choice([4, 5, 6])
            n = w + 1
            kk6 = lambda: rng.choice(["exp", "cmd"])
            g = {"n": n, "target": n, "deps": [[] for _ in range(w)] + [list(range(1, w + 1))], "kind": [kk6() for _ in range(w)] + ["group"],
                 "par": [True] * w + [False], "cachedTs": [0] * n, "stale": [False] * n, "again": False, "atLeast": False, "now": 1000, "lastTs0": 0}
            jobs = rng.choice([2, 2, 3])
            stop = False
            pkgs = RC.PLACEMENTS[k % len(RC.PLACEMENTS)][:n] if n <= 6 else [""] * n
            codes = {RC.ident_of(pkgs, t): rng.choice([1, 3, {"signal": 15}]) for t in rng.sample(range(1, w + 1), rng.choice([1, 2]))}
            sched = {"seed": rng.randrange(1 << 30), "codes": codes, "fail_launch": [], "p_exit": rng.choice([0.2, 0.5]),
                     "p_deliver": rng.choice([0.5, 0.9]), "allow_steal": False}
        if focus in ("reap", "slots") and k % 10 == 9:
            # a parallel task that cannot be LAUNCHED, then as many parallel tasks as there are slots: every one of them still
            # gets its outcome and the run ends normally
            w = rng.choice([2, 3])
            n = w + 3
            kk7 = lambda: rng.choice(["exp", "cmd"])
            g = {"n": n, "target": n, "deps": [[]] + [[] for _ in range(w + 1)] + [list(range(1, w + 3))], "kind": [kk7() for _ in range(w + 2)] + ["group"],
                 "par": [True] * (w + 2) + [False], "cachedTs": [0] * n, "stale": [False] * n, "again": False, "atLeast": False, "now": 1000, "lastTs0": 0}
            jobs = w
            stop = False
            pkgs = RC.PLACEMENTS[k % len(RC.PLACEMENTS)][:n] if n <= 6 else [""] * n
            sched = {"seed": rng.randrange(1 << 30), "codes": {}, "fail_launch": [RC.ident_of(pkgs, 1)], "p_exit": 0.1, "p_deliver": 0.9,
                     "allow_steal": False}
        if focus in ("deps", "fail") and k % 10 == 8:
            # a failure reaching a task THROUGH a group: g = group(b1, b2), a depends on g, u is unrelated and keeps running;
            # b1 fails, b2 succeeds, in either completion order
            kk4 = lambda: rng.choice(["exp", "cmd"])
            n = 6
            g = {"n": 6, "target": 6, "deps": [[], [], [], rng.sample([1, 2], 2), [4], rng.sample([5, 3], 2)],
                 "kind": [kk4(), kk4(), kk4(), "group", kk4(), "group"], "par": [True, True, True, False, rng.random() < 0.5, False],
                 "cachedTs": [0] * 6, "stale": [False] * 6, "again": False, "atLeast": False, "now": 1000, "lastTs0": 0}
            jobs = rng.choice([3, 3, 4])
            stop = False
            pkgs = RC.PLACEMENTS[k % len(RC.PLACEMENTS)][:n]
            failing = rng.choice([1, 2])
            sched = {"seed": rng.randrange(1 << 30), "codes": {RC.ident_of(pkgs, failing): rng.choice([1, 2, {"signal": 9}])}, "fail_launch": [],
                     "p_exit": rng.choice([0.15, 0.3]), "p_deliver": rng.choice([0.5, 0.9]), "allow_steal": False}
        if focus in ("deps", "reap") and k % 10 == 3:
            # a chain of process tasks next to a child that is not a task and exits early: much later a task of the chain is
            # forked with the recycled id of that child
            n = rng.choice([4, 5])
            kk5 = lambda: rng.choice(["exp", "cmd"])
            g = {"n": n, "target": n, "deps": [[]] + [[i] for i in range(1, n)], "kind": [kk5() for _ in range(n)],
                 "par": [rng.random() < 0.5 for _ in range(n)], "cachedTs": [0] * n, "stale": [False] * n, "again": False,
                 "atLeast": False, "now": 1000, "lastTs0": 0}
            jobs = rng.choice([1, 2])
            stop = False
            sched = {"seed": rng.randrange(1 << 30), "codes": {}, "fail_launch": [], "p_exit": 0.6, "p_deliver": 0.7,
                     "allow_steal": False, "unrelated": True, "reuse_pids": True}
        elif (focus == "reap" and rng.random() < 0.3) or (focus == "deps" and k % 5 == 1):
            # a child of `cond` that is not a task (left behind by a library, adopted, started before exec); process ids are
            # recycled, so a later task may get its id - or the id of an earlier task
            sched["unrelated"] = True
            sched["reuse_pids"] = True
        if focus in ("slots", "reap") and k % 4 == 1:
            # job control: running task processes get stopped and continued from outside (a stopped process still exists)
            sched["allow_stop"] = True
        if focus == "fail" and k % 5 == 3:
            # a task cannot be launched while other parallel tasks are still running (first failure = launch failure)
            w = rng.choice([1, 2, 3])
            n = w + 3
            kk3 = lambda: rng.choice(["exp", "cmd"])
            # r1..rw long-running parallel roots; q quick parallel root; f depends on q and cannot be launched; top groups all
            g = {"n": n, "target": n, "deps": [[] for _ in range(w)] + [[], [w + 1], list(range(1, w + 1)) + [w + 2]],
                 "kind": [kk3() for _ in range(w + 2)] + ["group"], "par": [True] * (w + 2) + [False],
                 "cachedTs": [0] * n, "stale": [False] * n, "again": False, "atLeast": False, "now": 1000, "lastTs0": 0}
            jobs = w + rng.choice([1, 2])
            stop = rng.random() < 0.7
            pkgs = RC.PLACEMENTS[k % len(RC.PLACEMENTS)][:n]
            sched = {"seed": rng.randrange(1 << 30), "codes": {}, "fail_launch": [RC.ident_of(pkgs, w + 2)],
                     "p_exit": 0.04, "p_deliver": 0.9, "allow_steal": False}
            if rng.random() < 0.5:
                # ... and q has further parallel dependents (s1, s2) that must still get a slot after the failed launch: a
                # slot claimed for the task that could not be launched must be usable again
                ns = rng.choice([1, 2, 3])
                n = w + 2 + ns + 1
                g = {"n": n, "target": n,
                     "deps": [[] for _ in range(w)] + [[], [w + 1]] + [[w + 1] for _ in range(ns)] + [list(range(1, w + 1)) + list(range(w + 2, w + 3 + ns))],
                     "kind": [kk3() for _ in range(w + 2 + ns)] + ["group"], "par": [True] * (w + 2 + ns) + [False],
                     "cachedTs": [0] * n, "stale": [False] * n, "again": False, "atLeast": False, "now": 1000, "lastTs0": 0}
                jobs = w + rng.choice([1, 2, ns + 1])
                stop = False
                pkgs = RC.PLACEMENTS[k % len(RC.PLACEMENTS)][:n] if n <= 6 else [""] * n
                sched["fail_launch"] = [RC.ident_of(pkgs, w + 2)]
        scn = RC.scenario_from_graph(g, placement=k, jobs=jobs, stop=stop, sched=sched)
        scn["_n"] = n
        if focus == "slots" and k % 10 == 4:
            # a CHAINED run_experiment_group whose instances are not parallelizable, next to parallel tasks: the files use the
            # macro, the monitor is configured with its documented expansion (t3, t4 sequential experiments, t4 after t3)
            g = {"n": 6, "target": 6, "deps": [[], [], [], [3], [3, 4], rng.sample([1, 2, 5], 3)],
                 "kind": ["cmd", "exp", "exp", "exp", "combine", "group"], "par": [True, True, False, rng.random() < 0.3, False, False],
                 "cachedTs": [0] * 6, "stale": [False] * 6, "again": False, "atLeast": False, "now": 1000, "lastTs0": 0}
            scn = RC.scenario_from_graph(g, placement=0, jobs=rng.choice([2, 3]), stop=False,
                                         sched={"seed": rng.randrange(1 << 30), "codes": {}, "fail_launch": [], "p_exit": 0.2, "p_deliver": 0.7})
            scn["_n"] = 6
            scn["project"]["raw_cond"] = {"": (
                "run_command(name='t1', run='true', parallelizable=True)\nrun_experiment(name='t2', run='true', parallelizable=True)\n"
                "run_experiment_group(name='t5', run='true', chain_experiments=True, experiments=[ExperimentInstance(name='t3'), "
                "ExperimentInstance(name='t4', parallelizable=%r)])\n"
                "group(name='t6', deps=%r)\n" % (bool(g["par"][3]), [":t%d" % d for d in g["deps"][5]]))}
            scn["dup_spelling"] = True      # (not offered to Executor_Trace: the lowering of the macro is not what _g describes)
        if focus == "slots" and k % 4 == 2:
            # nested use: cond's own environment already carries an outer task's COND_* variables (the slot value may coincide
            # with one this run hands out)
            scn["ambient"] = {"COND_SLOT": str(rng.randrange(0, max(1, jobs))), "COND_NAME": "outer"}
        if focus == "slots" and k % 4 == 1 and jobs >= 2:
            scn["affinity"], scn["affinity_n"] = "high", jobs + 1
        if focus == "deps" and k % 10 == 7:
            # one dependency listed twice under two spellings (":x" and "//pkg:x", "//pkg/:x"): such a definition must be
            # rejected - and if it is ever accepted, the dependency must still run once and never next to its dependent
            cand = [t for t in scn["project"]["tasks"] if t["deps"]]
            if cand:
                task = cand[rng.randrange(len(cand))]
                d0 = task["deps"][rng.randrange(len(task["deps"]))]
                pkg = task.get("pkg", "")
                if d0.startswith(":"):
                    alt = "//%s%s" % (pkg, d0)
                elif d0.split(":")[0] == "//" + pkg and rng.random() < 0.5:
                    alt = ":" + d0.split(":")[1]
                else:
                    alt = d0.replace(":", "/:") if not d0.startswith("//:") else d0
                if alt != d0:
                    task["deps"] = task["deps"] + [alt]
                    scn["dup_spelling"] = True
        scns.append(scn)
    return scns


def dfs_scenarios(job):
    """Systematic exploration of every environment schedule of one small scenario (stateless DFS).
    Runs inside a forked worker; every execution is forked again for isolation."""
    g, jobs, allow_steal, limit, placement, codes, offset, stride = job
    out = []
    prefix = [offset] if stride > 1 else []
    first = True
    while prefix is not None and len(out) < limit:
        scn = RC.scenario_from_graph(g, placement=placement, jobs=jobs,
                                     sched={"mode": "script", "choices": prefix, "allow_steal": allow_steal,
                                            "codes": codes or {}, "max_env_actions": 40})
        res = C.fork_map(RC.run_one, [scn], nproc=1)[0]
        out.append((scn, res))
        if res is None or "_error" in res or "_timeout" in res:
            break
        trail = [tuple(x) for x in res["trail"]]
        if stride > 1:
            # this worker owns the sub-tree below first choice == offset
            if not trail or trail[0][0] != offset:
                out.pop()
                prefix = None
                break
            sub = FK.dfs_next_prefix(trail[1:])
            prefix = None if sub is None else [offset] + sub
        else:
            prefix = FK.dfs_next_prefix(trail)
        first = False
    return out, prefix is None


def run_family(prop, clauses, tier, focus, count_quick, count_thorough, sig_fn=None, dfs=False):
    rep = C.Report(prop, tier, "model_checking")
    rng = random.Random(rep.seed * 7919 + int(prop[1:]))
    RC.warm()
    mc = model_check(rep, tier, prop, MODEL_SECOND_REAPER)
    if rep.machinery_errors:
        return rep.finish()
    count = count_quick if tier == "quick" else count_thorough
    scns = make_scenarios(rng, tier, focus, count)
    results = RC.run_batch(scns)
    dfs_exhausted = None
    if dfs:
        g2 = {"n": 2, "target": 2, "deps": [[], []], "kind": ["cmd", "group"], "par": [True, False], "cachedTs": [0, 0],
              "stale": [False, False], "again": False, "atLeast": False, "now": 1000, "lastTs0": 0}
        shapes = [dict(g2, deps=[[], [1]], kind=["exp", "cmd"], par=[True, True]),
                  dict(g2, n=3, target=3, deps=[[], [], [1, 2]], kind=["cmd", "cmd", "group"], par=[True, True, False],
                       cachedTs=[0, 0, 0], stale=[False] * 3)]
        lim = 60 if tier == "quick" else 1500
        jobs_ = []
        for sh in shapes:
            for off in range(4):   # split the DFS tree on the first environment choice
                jobs_.append((sh, 2, focus == "reap", lim, 0, None, off, 4))
        dfs_exhausted = []
        for pairs, done in C.fork_map(dfs_scenarios, jobs_, timeout=3000):
            dfs_exhausted.append(done)
            for s_, r_ in pairs:
                scns.append(s_)
                results.append(r_)
    if focus == "reap":
        # a child exits and its SIGCHLD is handled between two arbitrary LINES of Conductor's code (not only around system
        # calls): every executed line of the execution modules of a reference run, from the first spawn on
        EXEC = {"executor.py", "run_task_executable.py", "operation.py", "sigchld.py", "handle.py", "output_handler.py", "tee.py"}
        shapes_l = [{"n": 3, "target": 3, "deps": [[], [], [1, 2]], "kind": ["exp", "cmd", "group"], "par": [True, True, False],
                     "cachedTs": [0] * 3, "stale": [False] * 3, "again": False, "atLeast": False, "now": 1000, "lastTs0": 0},
                    {"n": 3, "target": 3, "deps": [[], [1], [2]], "kind": ["cmd", "exp", "cmd"], "par": [False, True, False],
                     "cachedTs": [0] * 3, "stale": [False] * 3, "again": False, "atLeast": False, "now": 1000, "lastTs0": 0}]
        refs = []
        for sh in shapes_l:
            r_scn = RC.scenario_from_graph(sh, placement=0, jobs=2, sched={"seed": 5, "p_exit": 0.02, "p_deliver": 0.9})
            r_scn["log_lines"] = True
            r_scn["count_lines"] = True
            refs.append(r_scn)
        line_scns = []
        for sh, r_scn, r_res in zip(shapes_l, refs, RC.run_batch(refs)):
            if r_res is None or "_error" in r_res or "_timeout" in r_res:
                rep.machinery("reference run for line-level signals failed: %s" % str(r_res)[:300])
                continue
            log = r_res.get("line_log") or []
            first_spawn = next((i for i, (f, ln, fn) in enumerate(log) if fn == "start_execution"), 0)
            picks = [i + 1 for i, (f, ln, fn) in enumerate(log) if i >= first_spawn and f in EXEC]
            if tier == "quick":
                picks = picks[::2] if len(picks) > 400 else picks
            for k_ in picks:
                sc = RC.scenario_from_graph(sh, placement=0, jobs=2, sched={"seed": 5, "p_exit": 0.02, "p_deliver": 0.9})
                sc["sigchld_at"] = k_
                sc["count_lines"] = True
                line_scns.append(sc)
        line_res = RC.run_batch(line_scns) if line_scns else []
        scns += line_scns
        results += line_res
        rep.cov["signals_between_lines"] = len(line_scns)
    verdicts, traces, errs, tr = RC.judge_batch(scns, results)
    for i, r in errs:
        rep.machinery("scenario %d failed: %s" % (i, str(r)[:600]))
    by_id = {t["id"]: t for t in traces}
    nontrivial, other = set(), {}
    real_hit = False
    for i, cl in verdicts.items():
        t = by_id[i]
        spawned = sum(1 for e in t["events"] if e["e"] == "Spawn")
        faulty = any(e["e"] in ("SpawnFail", "Skipping", "Failed") for e in t["events"])
        if spawned >= 2 or faulty:
            nontrivial.add(C.scenario_hash([t["cfg"], [(e["e"], e.get("t")) for e in t["events"]]]))
        bad = sorted(set(cl) & clauses)
        for c in set(cl) - clauses:
            other[c] = other.get(c, 0) + 1
        if bad:
            real_hit = True
            sig = {"clause": bad[0], "clauses": bad}
            if sig_fn:
                sig.update(sig_fn(scns[i], results[i], t, bad))
            rep.violation(sig, scns[i], "deps=%s kind=%s par=%s jobs=%s stop=%s: %s" % (
                t["cfg"]["deps"], t["cfg"]["kind"], t["cfg"]["par"], t["cfg"]["jobs"], t["cfg"]["stop"], bad),
                extra={"trace": t})
    # implementation-shaped validation: the recorded traces must be behaviours of Executor.tla itself (drift otherwise)
    xt = []
    for i, (s_, r_) in enumerate(zip(scns, results)):
        if len(xt) >= (80 if tier == "quick" else 2500):
            break
        if r_ is None or "_error" in r_ or "_timeout" in r_:
            continue
        t_ = R.to_exec_trace(i, s_, r_)
        if t_ is not None:
            xt.append(t_)
    consumed = 0
    if xt:
        # binding test: a few of the same traces with ONE recorded field corrupted (the slot of a spawn, the progress counter
        # of a line, the task of a completion) must be rejected by the trace specification
        corrupted = []
        for t_ in xt[:12]:
            c = json.loads(json.dumps(t_))
            c["id"] = 10 ** 6 + t_["id"]
            done = False
            for e in c["events"]:
                if e["e"] == "Spawn" and len(corrupted) % 3 == 0:
                    e["slot"] = e["slot"] + 1
                    done = True
                elif e["e"] == "Running" and len(corrupted) % 3 == 1:
                    e["k"] = e["k"] + 1
                    done = True
                elif e["e"] in ("Success", "Failed") and len(corrupted) % 3 == 2:
                    e["t"] = e["t"] % c["g"]["n"] + 1
                    done = True
                if done:
                    break
            if done:
                corrupted.append(c)
        xo, xres = R.validate_exec(xt + corrupted)
        slipped = [c["id"] - 10 ** 6 for c in corrupted if xo[c["id"]][0] == xo[c["id"]][1]]
        if slipped:
            rep.machinery("Executor_Trace accepted corrupted copies of traces %s: the trace specification does not bind" % slipped[:5])
        rep.cov["corrupted_traces_rejected"] = len(corrupted) - len(slipped)
        for t_ in xt:
            reached, n_ = xo[t_["id"]]
            if reached == n_:
                consumed += 1
            elif not verdicts.get(t_["id"]):
                nxt = t_["events"][reached] if reached < len(t_["events"]) else None
                rep.drift.append("trace %d (deps=%s kind=%s jobs=%s) is not a behaviour of Executor.tla: %d/%d events consumed, "
                                 "next event %s" % (t_["id"], t_["g"]["deps"], t_["g"]["kind"], t_["jobs"], reached, n_, nxt))
    rep.cov["traces_accepted_by_Executor_tla"] = consumed
    rep.cov["traces_offered_to_Executor_tla"] = len(xt)
    # B2: the same contract on REAL processes (real kernel, real SIGCHLD, gated completion orders / immediate exits)
    nreal = (24 if tier == "quick" else 600)
    rscns = RP.make_real_scenarios(rng, nreal, "soak" if focus == "reap" else "gated")
    if focus == "reap":
        rscns += RP.make_real_scenarios(rng, nreal // 2, "gated")
    rep.cov["real_process_runs"] = RP.run_and_judge(rep, rscns, clauses)
    model_bad = sorted(set(mc.violated) | ({"<deadlock>"} if mc.deadlock else set()))
    relevant_model = [x for x in model_bad if x in (prop, "<deadlock>", "<temporal>")]
    if relevant_model and not real_hit:
        rep.drift.append("Executor.tla violates %s but the real code never broke a %s clause in %d runs" % (
            relevant_model, prop, len(verdicts)))
    rep.cov.update({
        "states": mc.distinct, "transitions": mc.generated, "model_timed_out": mc.timed_out,
        "model_invariants_violated": model_bad,
        "traces_validated_against_impl": len(verdicts),
        "evaluations": len(scns), "distinct_nontrivial": len(nontrivial),
        "rule": "scenario = random task graph (2-6 tasks, every kind, ordered deps, diamonds forced) x --jobs x "
                "--stop-early x failing subset (exit code / signal / launch failure) x seeded environment schedule "
                "(which children exit and whether SIGCHLD is delivered before each interposed system call)%s; "
                "non-trivial = >=2 spawns or a failure/skip; distinct by (configuration, event sequence) hash" % (
                    "; plus stateless DFS over every schedule of two tiny scenarios" if dfs else ""),
        "clauses_of_other_properties_seen": other,
        "dfs_exhausted": dfs_exhausted,
        "judge_states": tr.generated if tr else 0,
    })
    for t in traces[:2]:
        rep.add_sample({"cfg": {k: t["cfg"][k] for k in ("deps", "kind", "par", "jobs", "stop")},
                        "events": [[e["e"], e.get("t"), e.get("st", e.get("slot"))] for e in t["events"]]})
    rep.assumptions += ["FakeKernel (harness/fakekernel.py) is a faithful model of fork/waitpid/SIGCHLD/killpg (cross-checked by "
                        "%d real-process executions judged on the skew-robust clauses)" % rep.cov.get("real_process_runs", 0),
                        "signal handlers are delivered at interposed calls (the handler state is only read there); for C09 also "
                        "before every executed line of the execution modules",
                        "process ids are recycled, but the id of a task's own process not before Conductor has consumed that task's "
                        "exit status"]
    return rep.finish()
