"""B2: the real `cond run` as a separate process, real bash children, the real kernel and real SIGCHLD.

Completion order is steered by gates (a task blocks until its gate file exists) released in waves by a controller, so
that several children exit "at once" (one SIGCHLD for many exits), exit immediately, or finish out of launch order.
The recorded execution (agent start/end records with microsecond wall-clock stamps, Conductor's own output lines stamped
on arrival) is merged into a RunObs trace.  Only clauses that are robust against the small skew between the two channels
are judged on these traces (see ROBUST).
"""
import json
import os
import random
import re
import shutil
import signal
import subprocess
import sys
import tempfile
import threading
import time

from . import common as C
from . import project as P
from . import runcheck as RC
from . import runobs as R
from .fakekernel import ANSI

ROBUST = {"StartAfterDepsExit0", "NoOverlapWithDependency", "AtMostJobs", "SequentialAlone", "DistinctSlots", "SlotRange",
          "SlotIffParallel", "TerminatesWhenAllExited", "OneOutcomeEach", "StatusBelongsToTask", "ExitZeroIffAllSucceeded",
          "FailedListExact", "SkippedListExact", "IndependentsRan", "SkippedNeverStarted", "OnlyNeeded", "AtMostOnce",
          "TotalIsNeeded", "CachedIsReusable", "NotAlsoStarted", "EnvDeps", "EnvOut", "EnvName", "EnvCwd", "RowsOnlyForExit0"}

AGENT = r'''#!/bin/bash
name="$COND_NAME"; ctl="$CV_CTL"
echo "start|$name|$$|${COND_SLOT-unset}|${EPOCHREALTIME/./}|$COND_OUT|$COND_DEPS|$PWD" >> "$ctl/log"
if [ -e "$ctl/gated_$name" ]; then
  while [ ! -e "$ctl/go_$name" ]; do sleep 0.003; done
fi
code=0
[ -f "$ctl/exit_$name" ] && code=$(cat "$ctl/exit_$name")
echo "end|$name|$$|$code|${EPOCHREALTIME/./}" >> "$ctl/log"
if [ "$code" = "kill" ]; then kill -9 $$; fi
exit $code
'''


def _reader(stream, sink):
    for raw in iter(stream.readline, b""):
        sink.append((time.time(), raw.decode("utf-8", "replace")))
    stream.close()


def run_real(scn):
    """Forked child. scn: as produced by runcheck.scenario_from_graph plus scn['real'] = {gated: [names], waves: [[names]],
    exits: {name: code}}. Returns a result dict shaped like fakekernel.run_cond's."""
    d = tempfile.mkdtemp(prefix="cvreal_", dir=C.scratch_root())
    proc = None
    try:
        root = os.path.join(d, "p")
        proj = json.loads(json.dumps(scn["project"]))
        for t in proj["tasks"]:
            if t["kind"] in ("run_experiment", "run_command"):
                depth = len([x for x in t.get("pkg", "").split("/") if x])
                t["run"] = "./" + "../" * depth + "ragent.sh"
        P.write_project(root, proj)
        with open(os.path.join(root, "ragent.sh"), "w") as f:
            f.write(AGENT)
        os.chmod(os.path.join(root, "ragent.sh"), 0o755)
        ctl = os.path.join(d, "ctl")
        os.makedirs(ctl)
        real = scn["real"]
        for n in real.get("gated", []):
            open(os.path.join(ctl, "gated_" + n), "w").close()
        for n, c in real.get("exits", {}).items():
            with open(os.path.join(ctl, "exit_" + n), "w") as f:
                f.write(str(c))
        open(os.path.join(ctl, "log"), "w").close()
        env = dict(os.environ)
        env["CV_CTL"] = ctl
        src = os.environ.get("VERIF_SUBJECT_SRC") or C.REPO_SRC
        env["PYTHONPATH"] = src
        env["PYTHONUNBUFFERED"] = "1"          # lines reach the reader when printed, not when a buffer fills
        proc = subprocess.Popen([C.PY, "-m", "conductor"] + list(scn["argv"]), cwd=root, env=env, stdout=subprocess.PIPE,
                                stderr=subprocess.PIPE, start_new_session=True)
        out_lines, err_lines = [], []
        th = [threading.Thread(target=_reader, args=(proc.stdout, out_lines), daemon=True),
              threading.Thread(target=_reader, args=(proc.stderr, err_lines), daemon=True)]
        for t in th:
            t.start()
        waves = [list(w) for w in real.get("waves", [])]
        released = set()
        last_change, last_size = time.time(), 0
        hang = False
        t0 = time.time()
        while True:
            if proc.poll() is not None:
                break
            try:
                size = os.path.getsize(os.path.join(ctl, "log"))
            except OSError:
                size = 0
            now = time.time()
            if size != last_size:
                last_size, last_change = size, now
            quiet = now - last_change
            if quiet > 0.06 and waves:
                for n in waves.pop(0):
                    open(os.path.join(ctl, "go_" + n), "w").close()
                    released.add(n)
                last_change = now
            elif quiet > 0.06 and not waves:
                # release anything still gated (tasks that were not in a wave)
                for n in real.get("gated", []):
                    if n not in released:
                        open(os.path.join(ctl, "go_" + n), "w").close()
                        released.add(n)
                if quiet > 8.0:
                    # every started task has ended, nothing new starts, cond is still there
                    recs = open(os.path.join(ctl, "log")).read().splitlines()
                    started = {r.split("|")[2] for r in recs if r.startswith("start|")}
                    ended = {r.split("|")[2] for r in recs if r.startswith("end|")}
                    if started <= ended:
                        hang = True
                        break
            if now - t0 > 120:
                hang = True
                break
            time.sleep(0.01)
        if hang:
            try:
                os.killpg(proc.pid, signal.SIGKILL)
            except OSError:
                pass
        proc.wait()
        for t in th:
            t.join(timeout=5)
        status = "HANG" if hang else proc.returncode
        # ---- merge the two channels by time
        merged = []
        for line in open(os.path.join(ctl, "log")).read().splitlines():
            f = line.split("|")
            if f[0] == "start":
                merged.append((int(f[4]) / 1e6, 0, ("start", f)))
            elif f[0] == "end":
                merged.append((int(f[4]) / 1e6, 1, ("end", f)))
        for ts, raw in out_lines:
            merged.append((ts, 2, ("line", raw)))
        merged.sort(key=lambda x: (x[0], x[1]))
        name2id = {t["name"]: "//%s:%s" % (t.get("pkg", ""), t["name"]) for t in proj["tasks"]}
        from .fakekernel import FakeKernel, ScriptChooser
        parser = FakeKernel({"sched": {}}, ScriptChooser([]))     # only for its line parser / report collector
        events = parser.events
        pid_n = {}
        for ts, _k, (kind, payload) in merged:
            if kind == "start":
                _s, name, pid, slot, _t, out, deps, cwd = payload
                ident = name2id.get(name, "//?:" + name)
                pid_n[pid] = ident
                events.append({"e": "Spawn", "t": ident, "pid": int(pid), "argv": ["/bin/bash", "-c", "ragent"], "cwd": cwd,
                               "sess": True, "env": {"COND_NAME": name, "COND_OUT": out, "COND_DEPS": deps,
                                                      "COND_SLOT": None if slot == "unset" else slot},
                               "out_listing": []})
            elif kind == "end":
                _e, name, pid, code, _t = payload
                ident = name2id.get(name, "//?:" + name)
                if code == "kill":
                    events.append({"e": "Exit", "pid": int(pid), "t": ident, "sig": 9})
                else:
                    events.append({"e": "Exit", "pid": int(pid), "t": ident, "code": int(code) & 0xFF})
            else:
                parser.on_line("stdout", payload.rstrip("\n"))
        errtxt = ANSI.sub("", "".join(x[1] for x in err_lines))
        kind = "Traceback" if "Traceback (most recent call last)" in errtxt else ("ERROR" if "ERROR:" in errtxt else "none")
        if hang:
            events.append({"e": "Hang"})
        events.append({"e": "Return", "exit": status, "exc": None, "stderr_kind": kind, "failed": parser.failed_list,
                       "skipped": parser.skipped_list, "banners": parser.banners, "live": [], "unreaped_tasks": []})
        return {"events": events, "status": status, "exc": None, "stderr": errtxt[-800:], "index": P.read_index(root),
                "stdout_tail": ANSI.sub("", "".join(x[1] for x in out_lines))[-600:], "lines": 0, "points": 0, "trail": None}
    finally:
        if proc is not None and proc.poll() is None:
            try:
                os.killpg(proc.pid, signal.SIGKILL)
            except OSError:
                pass
        shutil.rmtree(d, ignore_errors=True)


def make_real_scenarios(rng, count, focus):
    """Random graphs with real processes: immediate exits (soak), gated waves (coalesced exits, out-of-order completion)."""
    scns = []
    for k in range(count):
        n = rng.choice([3, 4, 5, 6, 8] if focus == "soak" else [3, 4, 5])
        g = RC.random_graph(rng, n, kinds=("exp", "cmd", "cmd", "group"), p_cached=0.0, p_par=0.85, dense=rng.choice([0.2, 0.4, 0.7]))
        jobs = rng.choice([2, 3, 4])
        scn = RC.scenario_from_graph(g, placement=0, jobs=jobs, stop=False)
        scn["project"]["config"] = "disable_git = true\n"
        scn["clock"] = None
        names = ["t%d" % t for t in range(1, n + 1) if g["kind"][t - 1] in ("exp", "cmd")]
        exits = {}
        for nm in names:
            if rng.random() < 0.15:
                exits[nm] = rng.choice([1, 3, "kill"])
        if focus == "soak":
            gated, waves = [], []
        else:
            gated = [nm for nm in names if rng.random() < 0.8]
            order = gated[:]
            rng.shuffle(order)
            waves = []
            while order:
                w = rng.choice([1, 1, 2, 3])
                waves.append(order[:w])
                order = order[w:]
        scn["real"] = {"gated": gated, "waves": waves, "exits": exits}
        scn["sched"] = {"codes": {}}
        scns.append(scn)
    return scns


def run_and_judge(rep, scns, clauses, timeout=600):
    """Execute with real processes, judge by RunObs (TLC); report violations of `clauses` that are in ROBUST."""
    results = C.fork_map(run_real, scns, timeout=timeout)
    traces = []
    for i, (s, r) in enumerate(zip(scns, results)):
        if r is None or "_error" in r or "_timeout" in r:
            rep.machinery("real-process run %d failed: %s" % (i, str(r)[:500]))
            continue
        traces.append(R.to_obs_trace(500000 + i, s, r))
    if not traces:
        return 0
    verdicts, _tr = R.judge(traces)
    for t in traces:
        i = t["id"] - 500000
        bad = sorted(set(verdicts[t["id"]]) & clauses & ROBUST)
        if bad:
            rep.violation({"clause": bad[0], "clauses": bad, "backend": "real-processes"}, scns[i],
                          "REAL processes: deps=%s kind=%s par=%s jobs=%s gates=%s: %s" % (
                              t["cfg"]["deps"], t["cfg"]["kind"], t["cfg"]["par"], t["cfg"]["jobs"], scns[i]["real"]["waves"], bad),
                          extra={"trace": t})
    return len(traces)
