"""Histories of real commands on a real scratch project (B3) with optional crash injection (B4); projection of
cond-out to the abstract Store state and conversion to StoreObs traces judged by TLC."""
import json
import os
import re
import shutil
import signal
import sqlite3
import subprocess
import sys
import tarfile
import tempfile
import time

from . import clirunner as CLI
from . import common as C
from . import project as P

AGENT = r'''#!/bin/bash
# experiment / command agent: logs what it sees, writes payload, finishes with the prescribed exit status
name="$COND_NAME"
ctl="$CV_CTL"
id="$name.$$"
{
  echo "out=$COND_OUT"
  echo "deps=$COND_DEPS"
  echo "slot=${COND_SLOT-unset}"
  echo "cwd=$PWD"
  echo "args=$*"
  echo -n "listing="; ls -A "$COND_OUT" 2>/dev/null | grep -v -e '^stdout.log$' -e '^stderr.log$' | tr '\n' ','; echo
} > "$ctl/$id.start"
env -0 > "$ctl/$id.env" 2>/dev/null
n=$(ls "$ctl" | grep -c "^$name\..*\.start$")
# a task that tidies its output directory first / dumps its own parsed configuration under the name Conductor uses
if [ -e "$ctl/tidy_$name" ]; then
  rm -f "$COND_OUT"/*.json
  if [ "$(cat "$ctl/tidy_$name")" = "clobber" ]; then echo '{"parsed": "by the task itself"}' > "$COND_OUT/args.json"; echo '["mine"]' > "$COND_OUT/options.json"; fi
fi
echo "payload $name run $n $*" > "$COND_OUT/payload.txt"
mkdir -p "$COND_OUT/sub/deep"
echo "nested $n" > "$COND_OUT/sub/deep/file.bin"
echo "out of $name"
echo "err of $name" >&2
code=0
[ -f "$ctl/exit_$name" ] && code=$(cat "$ctl/exit_$name")
if [ "$code" = "0" ]; then echo done > "$COND_OUT/done.txt"; fi
# a helper the task leaves behind: it still holds the task's stdout / stderr and prints a moment after the shell has exited
if [ -e "$ctl/late_$name" ]; then ( sleep 0.35; echo "late line of $name"; echo "late err of $name" >&2 ) & fi
echo "code=$code" > "$ctl/$id.end"
if [ "$code" = "kill" ]; then kill -9 $$; fi
exit $code
'''

POSIX_EFFECTS = {"mkdir", "open", "unlink", "rmdir", "rename", "replace", "symlink", "sendfile", "copy_file_range",
                 "utime", "chmod", "link", "truncate", "ftruncate", "write", "kill", "killpg", "waitpid"}
SQL_EFFECTS = {"execute", "executemany", "commit", "rollback", "executescript"}


def effect_label(arg):
    """Name of an effectful C call (something that can change the disk, the index or a process), else None."""
    name = getattr(arg, "__name__", "")
    mod = getattr(arg, "__module__", None)
    if mod == "posix":
        return "posix." + name if name in POSIX_EFFECTS else None
    if mod in ("_io", "io"):
        return "io.open" if name == "open" else None
    if mod == "_posixsubprocess":
        return "fork_exec" if name == "fork_exec" else None
    if mod is None and name in SQL_EFFECTS:
        slf = getattr(arg, "__self__", None)
        if slf is not None and type(slf).__module__ in ("sqlite3", "_sqlite3"):
            return "sqlite." + name
    return None


class CrashProfile:
    """sys.setprofile callback that kills the process right before the k-th effectful C call."""

    def __init__(self, crash_at=None):
        self.n = 0
        self.crash_at = crash_at
        self.log = []

    def __call__(self, frame, event, arg):
        if event != "c_call":
            return
        lab = effect_label(arg)
        if lab is None:
            return
        self.n += 1
        if self.crash_at is None:
            if len(self.log) < 600:
                self.log.append("%s@%s:%d" % (lab, os.path.basename(frame.f_code.co_filename), frame.f_lineno))
        elif self.n == self.crash_at:
            os._exit(137)


def build_store_project(root, scn):
    proj = scn["project"]
    P.write_project(root, proj)
    with open(os.path.join(root, "agent.sh"), "w") as f:
        f.write(AGENT)
    os.chmod(os.path.join(root, "agent.sh"), 0o755)
    os.makedirs(os.path.join(root, ".ctl"), exist_ok=True)
    os.makedirs(os.path.join(root, "..", "outside", "x.task.5"), exist_ok=True)
    with open(os.path.join(root, "..", "outside", "x.task.5", "keep.txt"), "w") as f:
        f.write("sentinel\n")
    # a sibling of cond-out whose NAME extends "cond-out" (an older output tree kept around), with version-like directories
    for rel in ("fig1.task.5", "sweep/run.task.7"):
        os.makedirs(os.path.join(root, "cond-out-2023", rel), exist_ok=True)
        with open(os.path.join(root, "cond-out-2023", rel, "keep.txt"), "w") as f:
            f.write("kept results\n")
    g = scn.get("git")
    if g:
        # g["sha256"]: a repository whose object ids are SHA-256 (64 hex digits) - `git init --object-format=sha256`
        # g["nested"]: the repository's top directory is the PARENT of the project root (the project is a sub-directory of it)
        top = os.path.join(root, "..") if g.get("nested") else root
        P.git(top, "init", "-q", *(["--object-format=sha256"] if g.get("sha256") else []))
        with open(os.path.join(top, ".gitignore"), "w") as f:
            f.write("cond-out/\n.ctl/\n*.tar.gz\nstdout.*.txt\nstderr.*.txt\nstuck.*.txt\nwatch.*\n")
        commits = []
        for i in range(g.get("commits", 1)):
            with open(os.path.join(root, "f.txt"), "w") as f:
                f.write("v%d\n" % i)
            P.git(root, "add", "-A")
            P.git(root, "commit", "-q", "-m", "c%d" % i)
            commits.append(P.git(root, "rev-parse", "HEAD"))
        if g.get("dirty"):
            with open(os.path.join(root, "f.txt"), "a") as f:
                f.write("dirty\n")
            if g.get("dirty") == "staged":
                P.git(root, "add", "-A")
        return commits
    return []


def agent_run(depth):
    return "./" + "../" * depth + "agent.sh"


def exp_task(pkg, name, deps=(), par=False, kind="run_experiment", args=None, options=None):
    depth = len([x for x in pkg.split("/") if x])
    t = {"pkg": pkg, "name": name, "kind": kind, "deps": list(deps), "par": par}
    if kind in ("run_experiment", "run_command"):
        t["run"] = agent_run(depth)
        if args:
            t["args"] = args
        if options:
            t["options"] = options
    return t


def _cli_child(job):
    root, argv, cwd, clock, crash_at, count, env = job
    # if the command does not return, leave the stacks of all threads behind for the diagnosis
    import faulthandler
    try:
        _fh = open(os.path.join(root, "..", "stuck.%d.txt" % os.getpid()), "w")
        faulthandler.dump_traceback_later(int(os.environ.get("CV_STUCK_DUMP_S", "90")), repeat=False, file=_fh)
    except Exception:
        _fh = None
    prof = CrashProfile(crash_at) if (crash_at is not None or count) else None
    r = CLI.run_cli(root, argv, cwd=cwd, clock=clock, profile=prof, env=env)
    if prof is not None:
        r["effects"] = prof.n
        r["effect_log"] = prof.log
    try:
        faulthandler.cancel_dump_traceback_later()
        if _fh is not None:
            _fh.close()
            os.unlink(_fh.name)
    except Exception:
        pass
    return r


def run_command(root, argv, cwd="", clock=None, crash_at=None, count=False, env=None, timeout=400):
    env = dict(env or {})
    env["CV_CTL"] = os.path.join(root, ".ctl")
    res = C.fork_map(_cli_child, [(root, argv, cwd, clock, crash_at, count, env)], nproc=1, timeout=timeout)[0]
    if isinstance(res, dict) and res.get("_error") == "child died without result":
        res = {"status": 137, "crashed": True, "stdout": "", "stderr": "", "stderr_kind": "none"}
    if isinstance(res, dict) and res.get("_timeout"):
        import glob
        dumps = []
        for f in glob.glob(os.path.join(root, "..", "stuck.*.txt")):
            try:
                dumps.append(open(f).read()[-3000:])
            except OSError:
                pass
        res["_error"] = "command %s did not return within %ss; thread stacks: %s" % (argv, timeout, " || ".join(dumps) or "(none)")
    # orphans (children of a crashed cond) may still be writing: wait for the agents to finish
    deadline = time.time() + 5
    ctl = env["CV_CTL"]
    while time.time() < deadline:
        starts = [f[:-6] for f in os.listdir(ctl) if f.endswith(".start")]
        if all(os.path.exists(os.path.join(ctl, s + ".end")) for s in starts):
            break
        time.sleep(0.01)
    return res


def task_environment(root):
    """What a task process of this project finds in its environment beyond what `cond` itself was started with (the
    variables Conductor exports to tasks, whatever they are called), from the newest agent record."""
    ctl = os.path.join(root, ".ctl")
    envs = sorted((f for f in os.listdir(ctl) if f.endswith(".env")), key=lambda f: os.path.getmtime(os.path.join(ctl, f)))
    if not envs:
        return {}
    out = {}
    for item in open(os.path.join(ctl, envs[-1]), "rb").read().split(b"\0"):
        k, sep, v = item.decode("utf-8", "replace").partition("=")
        if not sep or k in ("PWD", "OLDPWD", "SHLVL", "_", "CV_CTL") or os.environ.get(k) == v:
            continue
        out[k] = v
    return out


def read_spawns(root, since):
    """Agent logs written after index `since` (set of already seen start files)."""
    ctl = os.path.join(root, ".ctl")
    out = []
    for f in sorted(os.listdir(ctl)):
        if not f.endswith(".start") or f in since:
            continue
        since.add(f)
        rec = {}
        with open(os.path.join(ctl, f)) as fh:
            for line in fh:
                k, _, v = line.rstrip("\n").partition("=")
                rec[k] = v
        endp = os.path.join(ctl, f[:-6] + ".end")
        code = None
        if os.path.exists(endp):
            with open(endp) as fh:
                code = fh.read().strip().partition("=")[2]
        rec["code"] = code
        rec["name"] = f.split(".")[0]
        out.append(rec)
    return out


def tar_members(path):
    """(set of top-level version dir relpaths, has_index, rows, digests) of an archive file."""
    info = {"members": [], "has_index": False, "rows": [], "ok": True}
    d = tempfile.mkdtemp(prefix="cvtar_", dir=C.scratch_root())
    try:
        p = subprocess.run(["tar", "xzf", path, "-C", d], capture_output=True)
        if p.returncode != 0:
            info["ok"] = False
        idx = os.path.join(d, "version_index_archive.sqlite")
        if os.path.isfile(idx):
            info["has_index"] = True
            try:
                conn = sqlite3.connect(idx)
                info["rows"] = [{"task": r[0], "ts": r[1], "commit": r[2], "dirty": bool(r[3])} for r in conn.execute(
                    "SELECT task_identifier, timestamp, git_commit_hash, has_uncommitted_changes FROM version_index")]
                conn.close()
            except sqlite3.Error:
                info["ok"] = False
        tree = CLI.snapshot_tree(d)
        for rel, kind in sorted(tree.items()):
            leaf = os.path.basename(rel)
            m = CLI.VDIR.match(leaf)
            if kind == "d" and m and not any(CLI.VDIR.match(x) or CLI.TDIR.match(x) for x in rel.split("/")[:-1]):
                pkg = os.path.dirname(rel)
                info["members"].append({"task": "//%s:%s" % (pkg, m.group("name")), "ts": int(m.group("ts")),
                                        "digest": CLI.subtree_digest(tree, rel)})
    finally:
        shutil.rmtree(d, ignore_errors=True)
    return info


class Interner:
    def __init__(self):
        self.t = {}

    def __call__(self, s):
        if s is None:
            return 0
        return self.t.setdefault(s, len(self.t) + 1)


def abstract_state(ps, I, outside_digest, has_args=None, rebase=0):
    """project_store() result -> abstract S for StoreObs (numbers only)."""
    rows = [[I("id:" + r["task"]), r["ts"] - rebase, I("c:" + r["commit"]) if r["commit"] else 0, 1 if r["dirty"] else 0]
            for r in (ps["rows"] or [])]
    vd = []
    for rel, v in sorted(ps["vdirs"].items()):
        files = set(v["files"])
        complete = {"done.txt", "stdout.log", "stderr.log"} <= files
        if has_args is not None and v["task"] in has_args:
            a, o = has_args[v["task"]]
            complete = complete and (("args.json" in files) == bool(a)) and (("options.json" in files) == bool(o))
            # ... and the records DECODE to what the task declares (whatever the task itself did to files of that name)
            rec = v.get("records") or {}
            if a and not isinstance(a, bool) and "args.json" in rec:
                complete = complete and rec["args.json"] == a
            if o and not isinstance(o, bool) and "options.json" in rec:
                complete = complete and rec["options.json"] == o
        vd.append([I("id:" + v["task"]), v["ts"] - rebase, I("d:" + str(v["digest"])), 1 if complete else 0])
    td = [[I("id:" + rel), I("d:" + str(v["digest"]))] for rel, v in sorted(ps["tdirs"].items())]
    # don't-care entries: archive files, the temporary archive index, the staging directory of restore
    misc_items = [(k, ps["tree"].get(k)) for k in ps["other"] if not re.search(r"\.tar\.gz$", k)
                  and not k.startswith("version_index_archive") and k != CLI.staging_name()]
    misc = I("m:" + json.dumps(sorted(
        (k, v, CLI.subtree_digest(ps["tree"], k) if v == "d" else "") for k, v in misc_items)))
    return {"rows": rows, "vdirs": vd, "tdirs": td, "misc": misc, "outside": I("o:" + str(outside_digest))}


def outside_digest(root):
    t = CLI.snapshot_tree(os.path.join(root, "..", "outside"))
    t2 = CLI.snapshot_tree(os.path.join(root, "cond-out-2023"))
    return C.scenario_hash([sorted(t.items()), sorted(t2.items())])


# --------------------------------------------------------------------------------------- histories


def _ident_from_out(path, root):
    base = os.path.join(os.path.realpath(root), "cond-out")
    rel = os.path.relpath(os.path.realpath(path) if os.path.exists(path) else path, base)
    pkg, leaf = os.path.split(rel)
    m = CLI.VDIR.match(leaf)
    if m:
        return "//%s:%s" % (pkg, m.group("name")), int(m.group("ts"))
    m = CLI.TDIR.match(leaf)
    if m:
        return "//%s:%s" % (pkg, m.group("name")), 0
    return None, 0


def apply_plant(root, entries):
    for e in entries:
        if e.get("only_if") and not os.path.isdir(os.path.join(root, e["only_if"])):
            continue
        p = os.path.join(root, e["path"])
        k = e.get("kind", "dir")
        if k == "dir":
            os.makedirs(p, exist_ok=True)
            for fn, content in e.get("files", {}).items():
                fp = os.path.join(p, fn)
                os.makedirs(os.path.dirname(fp), exist_ok=True)
                with open(fp, "w") as f:
                    f.write(content)
        elif k == "file":
            os.makedirs(os.path.dirname(p), exist_ok=True)
            with open(p, "w") as f:
                f.write(e.get("content", "x"))
        elif k == "symlink":
            os.makedirs(os.path.dirname(p), exist_ok=True)
            if os.path.lexists(p):
                os.unlink(p)
            os.symlink(e["target"], p)
        elif k == "copy_of_target":
            # the link is replaced by a REAL directory: a copy of what it pointed to (same names, sizes, times at the top level),
            # curated by hand somewhere below
            if os.path.islink(p) and os.path.isdir(p):
                tgt = os.path.realpath(p)
                os.unlink(p)
                shutil.copytree(tgt, p, symlinks=True)
                for dp, dn, fn in os.walk(p):
                    for f_ in fn:
                        if dp != p:
                            with open(os.path.join(dp, f_), "a") as fh:
                                fh.write("edited by hand\n")
                with open(os.path.join(p, "sub", "NOTES.txt") if os.path.isdir(os.path.join(p, "sub")) else os.path.join(p, ".notes"), "w") as fh:
                    fh.write("mine\n")
        elif k == "remove":
            if os.path.isdir(p) and not os.path.islink(p):
                shutil.rmtree(p)
            elif os.path.lexists(p):
                os.unlink(p)


def member_cut_points(path):
    """Offsets (in the uncompressed tar stream) of the member headers of a .tar.gz, in order."""
    offs = []
    with tarfile.open(path, "r:gz") as t:
        for m in t:
            offs.append(m.offset)
    return offs


def compressed_length_for(path, tar_offset):
    """Smallest number of bytes of the gzip file that decompress to at least `tar_offset` bytes of tar stream."""
    import zlib
    data = open(path, "rb").read()
    d = zlib.decompressobj(16 + zlib.MAX_WBITS)
    produced = 0
    step = 64
    for i in range(0, len(data), step):
        produced += len(d.decompress(data[i:i + step]))
        if produced >= tar_offset:
            # refine inside this step
            d2 = zlib.decompressobj(16 + zlib.MAX_WBITS)
            got = len(d2.decompress(data[:i]))
            for j in range(i, min(len(data), i + step)):
                got += len(d2.decompress(data[j:j + 1]))
                if got >= tar_offset:
                    return j + 1
            return i + step
    return len(data)


def damage_archive(path, how, arg=None):
    """Corrupt an archive produced by the real `cond archive`."""
    d = tempfile.mkdtemp(prefix="cvdmg_", dir=C.scratch_root())
    try:
        if how == "truncate":
            size = os.path.getsize(path)
            with open(path, "r+b") as f:
                f.truncate(max(1, int(size * (arg or 0.5))))
            return
        if how == "cut_at_member":
            # truncate the COMPRESSED file at the byte where the tar stream reaches a member boundary: arg = (k, where) cuts at
            # the start (where=0) / in the middle (1) / at the end (2) of the 512-byte header of the k-th member from the END
            cuts = member_cut_points(path)
            k, where = arg
            if not cuts:
                return
            off = cuts[max(0, len(cuts) - 1 - k)] + (0, 256, 512)[where]
            with open(path, "r+b") as f:
                f.truncate(max(1, compressed_length_for(path, off)))
            return
        subprocess.run(["tar", "xzf", path, "-C", d], check=True)
        if how == "noindex":
            os.unlink(os.path.join(d, "version_index_archive.sqlite"))
        elif how == "missing":
            # remove one version directory listed in the index
            info = tar_members(path)
            m = info["members"][arg or 0]
            pkg, name = P.split_id(m["task"])
            shutil.rmtree(os.path.join(d, pkg, "%s.task.%d" % (name, m["ts"])))
        elif how == "filefordir":
            info = tar_members(path)
            m = info["members"][arg or 0]
            pkg, name = P.split_id(m["task"])
            p = os.path.join(d, pkg, "%s.task.%d" % (name, m["ts"]))
            shutil.rmtree(p)
            with open(p, "w") as f:
                f.write("not a directory")
        elif how == "badindex":
            with open(os.path.join(d, "version_index_archive.sqlite"), "w") as f:
                f.write("this is not sqlite")
        names = sorted(os.listdir(d))
        os.unlink(path)
        subprocess.run(["tar", "czf", path, "-C", d] + names, check=True)
    finally:
        shutil.rmtree(d, ignore_errors=True)


class IndexReader:
    """While a command runs, ANOTHER process is in the middle of reading the version index (the explorer serving a request, a
    second `cond where`, a backup tool): it holds SQLite's shared lock from the moment the index (and its table) exists until
    the command has returned.  A separate process, as RowWatcher."""

    def __init__(self, root):
        self.stop_file = os.path.join(root, "..", "reader.stop.%d" % os.getpid())
        self.ready_file = os.path.join(root, "..", "reader.ready.%d" % os.getpid())
        for f in (self.stop_file, self.ready_file):
            if os.path.exists(f):
                os.unlink(f)
        path = os.path.join(root, "cond-out", "version_index.sqlite")
        self.pid = os.fork()
        if self.pid == 0:
            try:
                C._die_with_parent()
                conn = None
                while not os.path.exists(self.stop_file):
                    if conn is None and os.path.exists(path):
                        try:
                            conn = sqlite3.connect(path, isolation_level=None, timeout=0.05)
                            conn.execute("BEGIN")
                            conn.execute("SELECT count(*) FROM version_index").fetchall()
                            open(self.ready_file, "w").close()
                        except sqlite3.Error:
                            try:
                                conn.close()
                            except Exception:
                                pass
                            conn = None
                    time.sleep(0.002)
            finally:
                os._exit(0)
        # the index exists already: the reader is in place BEFORE the command starts
        self.early = False
        if os.path.exists(path):
            t0 = time.time()
            while not os.path.exists(self.ready_file) and time.time() - t0 < 5:
                time.sleep(0.002)
            self.early = os.path.exists(self.ready_file)

    def finish(self):
        open(self.stop_file, "w").close()
        try:
            os.waitpid(self.pid, 0)
        except ChildProcessError:
            pass
        held = self.early
        for f in (self.stop_file, self.ready_file):
            if os.path.exists(f):
                os.unlink(f)
        return held


class RowWatcher:
    """While a command runs: the moment a new row appears in the version index, the tree of that version's directory is
    snapshotted; finish() names the versions whose directory content changed AFTER they were recorded.
    A separate PROCESS (not a thread: the commands are run in forked children, and forking a multi-threaded process can leave
    the child with a lock held by a thread that does not exist there)."""

    def __init__(self, root, before):
        self.root = root
        self.known = {(r["task"], r["ts"]) for r in (before["rows"] or [])}
        self.stop_file = os.path.join(root, "..", "watch.stop.%d" % os.getpid())
        self.out_file = os.path.join(root, "..", "watch.out.%d" % os.getpid())
        for f in (self.stop_file, self.out_file):
            if os.path.exists(f):
                os.unlink(f)
        self.pid = os.fork()
        if self.pid == 0:
            try:
                C._die_with_parent()
                seen = {}
                while not os.path.exists(self.stop_file):
                    for key in self._rows():
                        if key not in self.known and key not in seen:
                            seen[key] = self._digest(*key)
                    time.sleep(0.004)
                with open(self.out_file + ".tmp", "w") as f:
                    json.dump([[t, ts, d0] for (t, ts), d0 in sorted(seen.items())], f)
                os.rename(self.out_file + ".tmp", self.out_file)
            finally:
                os._exit(0)

    def _digest(self, task, ts):
        pkg, name = P.split_id(task)
        base = os.path.join(self.root, "cond-out", pkg)
        leaf = "%s.task.%d" % (name, ts)
        return CLI.subtree_digest(CLI.snapshot_tree(base), leaf) if os.path.isdir(os.path.join(base, leaf)) else None

    def _rows(self):
        path = os.path.join(self.root, "cond-out", "version_index.sqlite")
        if not os.path.exists(path):
            return []
        try:
            conn = sqlite3.connect("file:%s?mode=ro" % path, uri=True, timeout=0.05)
            try:
                return [(r[0], r[1]) for r in conn.execute("SELECT task_identifier, timestamp FROM version_index")]
            finally:
                conn.close()
        except sqlite3.Error:
            return []

    def finish(self):
        open(self.stop_file, "w").close()
        try:
            os.waitpid(self.pid, 0)
        except ChildProcessError:
            pass
        time.sleep(0.5)           # a helper the task left behind may still be printing
        seen = []
        if os.path.exists(self.out_file):
            seen = json.load(open(self.out_file))
            os.unlink(self.out_file)
        if os.path.exists(self.stop_file):
            os.unlink(self.stop_file)
        return [[t, ts] for t, ts, d0 in seen if d0 is not None and self._digest(t, ts) != d0]


def run_history(scn):
    """Forked child. Executes the steps of a scenario on a fresh project; returns the raw history."""
    d = tempfile.mkdtemp(prefix="cvhist_", dir=C.scratch_root())
    try:
        root = os.path.join(d, "p")
        commits = build_store_project(root, scn)
        seen = set()
        ctl = os.path.join(root, ".ctl")
        steps = []
        before = CLI.project_store(root)
        obefore = outside_digest(root)
        clock = scn.get("clock0", 100)
        git_off = False
        last_root = root
        for st in scn["steps"]:
            cmd = st["cmd"]
            if cmd == "plant":
                apply_plant(root, st["entries"])
                before = CLI.project_store(root)
                obefore = outside_digest(root)
                continue
            if cmd == "git":
                for a in st["ops"]:
                    if a[0] == "checkout":
                        P.git(root, "checkout", "-q", "-f", "--detach", commits[a[1]])
                    elif a[0] == "dirty":
                        with open(os.path.join(root, "f.txt"), "a") as f:
                            f.write("dirty\n")
                    elif a[0] == "stage":
                        # everything changed so far goes to the index: the work tree equals the index, not HEAD
                        P.git(root, "add", "-A")
                    elif a[0] == "staged_new":
                        with open(os.path.join(root, "g%d.txt" % len(steps)), "w") as f:
                            f.write("new tracked file\n")
                        P.git(root, "add", "-A")
                    elif a[0] == "untracked":
                        with open(os.path.join(root, "u%d.tmp" % len(steps)), "w") as f:
                            f.write("untracked\n")
                    elif a[0] == "clean":
                        P.git(root, "reset", "-q", "--hard", "HEAD")
                continue
            if cmd == "damage":
                damage_archive(os.path.join(root, st["archive"]), st["how"], st.get("arg"))
                continue
            if cmd == "setconfig":
                # the project's configuration changes between invocations (e.g. git integration switched off)
                with open(os.path.join(root, "cond_config.toml"), "w") as f:
                    f.write(st["text"])
                git_off = "disable_git = true" in st["text"]
                continue
            if cmd == "bulk":
                # many more recorded versions (as a long-lived project has): rows + finished directories written directly
                os.makedirs(os.path.join(root, "cond-out"), exist_ok=True)
                idx = os.path.join(root, "cond-out", "version_index.sqlite")
                if not os.path.exists(idx):
                    P.write_index(root, [])
                conn = sqlite3.connect(idx)
                for i in range(st["n"]):
                    task, ts = "//bulk:z%d" % (i % 4), 5000 + i
                    conn.execute("INSERT INTO version_index VALUES (?,?,?,?)", (task, ts, None, 0))
                    dd = os.path.join(root, "cond-out", "bulk", "z%d.task.%d" % (i % 4, ts))
                    os.makedirs(dd)
                    for fn in ("done.txt", "stdout.log", "stderr.log"):
                        with open(os.path.join(dd, fn), "w") as f:
                            f.write("%d\n" % i)
                conn.commit()
                conn.close()
                before = CLI.project_store(root)
                continue
            if cmd == "downgrade":
                # the project was last touched by an old Conductor: its index is still in format 1 (the next command migrates it)
                P.downgrade_index(root)
                before = CLI.project_store(root)
                continue
            if cmd == "retype":
                # the project's sources change between invocations: a task that used to be an experiment (and has recorded
                # versions) is now declared with another task type
                P.write_project(root, {"config": scn["project"].get("config", ""), "tasks": retyped_tasks(scn, upto=st)})
                continue
            if cmd == "copyproject":
                # second project (for restore round trips): same sources, empty cond-out
                dst = os.path.join(d, st["name"])
                shutil.copytree(root, dst, ignore=shutil.ignore_patterns("cond-out", ".ctl"))
                os.makedirs(os.path.join(dst, ".ctl"))
                continue
            if st.get("if_exists") and not os.path.isfile(os.path.join(root, st["if_exists"])):
                continue
            if cmd == "roundtrip":
                src = CLI.project_store(root)
                dst = CLI.project_store(os.path.join(d, st["project"]))
                steps.append({"cmd": "roundtrip", "argv": ["(compare)"], "exit": 0, "crashed": False, "stderr_kind": "none",
                              "stdout": "", "stderr": "", "before": st.get("_src") or src, "after": dst,
                              "obefore": obefore, "oafter": obefore, "sel": st["sel"], "label": st.get("label"),
                              "cwd": "", "timeout": False, "error": None, "effects": None, "effect_log": None})
                continue
            for f in os.listdir(ctl):
                if f.startswith("exit_"):
                    os.unlink(os.path.join(ctl, f))
            for name, code in st.get("exits", {}).items():
                with open(os.path.join(ctl, "exit_" + name), "w") as f:
                    f.write(str(code))
            for f in os.listdir(ctl):
                if f.startswith("tidy_"):
                    os.unlink(os.path.join(ctl, f))
            for name, mode in st.get("tidy", {}).items():
                with open(os.path.join(ctl, "tidy_" + name), "w") as f:
                    f.write(mode)
            for f in os.listdir(ctl):
                if f.startswith("late_"):
                    os.unlink(os.path.join(ctl, f))
            for name in st.get("late", []):
                open(os.path.join(ctl, "late_" + name), "w").close()
            clock = st.get("clock", clock)
            argv = [commits[int(a[len("@commit"):])] if isinstance(a, str) and a.startswith("@commit") and commits else a
                    for a in st["argv"]]
            head, dirty = None, False
            if scn.get("git") and cmd == "run" and not git_off:
                head = P.git(root, "rev-parse", "HEAD", check=False) or None
                dirty = subprocess.run(["git", "diff-index", "--quiet", "HEAD"], cwd=root).returncode != 0
            tgt_root = os.path.join(d, st["project"]) if st.get("project") else root
            if st.get("project") or last_root != tgt_root:
                before = CLI.project_store(tgt_root)       # the previous command worked on another project
            last_root = tgt_root
            watcher = RowWatcher(tgt_root, before) if st.get("watch") else None
            # st["env"]: what `cond` finds in its OWN environment (nested use: an outer task's COND_* variables); "@root" = project
            amb = {k_: v_.replace("@root", tgt_root) for k_, v_ in (st.get("env") or {}).items()}
            reader = IndexReader(tgt_root) if st.get("reader") else None
            r = run_command(tgt_root, argv, cwd=st.get("cwd", ""), clock=clock, crash_at=st.get("crash_at"),
                            count=st.get("count", False), env=amb)
            reader_held = reader.finish() if reader else None
            late_writes = watcher.finish() if watcher else []
            after = CLI.project_store(tgt_root)
            oafter = outside_digest(root)
            status = r.get("status")
            rec = {"cmd": cmd, "argv": argv, "exit": status if isinstance(status, int) else 70,
                   "crashed": bool(r.get("crashed")) or status == 137, "stderr_kind": r.get("stderr_kind"),
                   "stdout": (r.get("stdout") or "")[-1500:], "stderr": (r.get("stderr") or "")[-1500:],
                   "before": before, "after": after, "obefore": obefore, "oafter": oafter,
                   "effects": r.get("effects"), "effect_log": r.get("effect_log"), "cwd": st.get("cwd", ""),
                   "timeout": bool(r.get("_timeout")), "error": r.get("_error")}
            if cmd == "run":
                rec["late_writes"] = late_writes
                rec["spawns"] = read_spawns(root, seen)
                rec["head"], rec["dirty"] = head, dirty
            if cmd == "gcdry":
                listed = []
                for line in (r.get("stdout") or "").splitlines():
                    if line.startswith("Would delete "):
                        p = os.path.normpath(os.path.join(tgt_root, st.get("cwd", ""), line[len("Would delete "):]))
                        listed.append(_ident_from_out(p, tgt_root))
                rec["listed"] = listed
            if cmd == "archive":
                ap = os.path.join(tgt_root, st["out"])
                rec["archive_exists"] = os.path.isfile(ap)
                rec["tar"] = tar_members(ap) if os.path.isfile(ap) else None
                rec["sel"] = st["sel"]
            if cmd == "restore":
                ap = os.path.join(root, st["archive"])
                rec["tar"] = tar_members(ap) if os.path.isfile(ap) else None
                rec["defect"] = st.get("defect", "none")
                if reader is not None and not reader_held:
                    rec["defect"] = "none"      # the reader was not in place before the command: nothing stood in its way
            rec["label"] = st.get("label")
            if reader is not None:
                rec["reader_held"] = reader_held
            steps.append(rec)
            before, obefore = after, oafter
        return {"steps": steps, "root": os.path.realpath(root)}
    finally:
        # make sure no orphan agent survives
        shutil.rmtree(d, ignore_errors=True)


def retyped_tasks(scn, upto=None):
    """The task list after the `retype` steps of the scenario (all of them, or those up to and including `upto`)."""
    tasks = json.loads(json.dumps(scn["project"]["tasks"]))
    for st in scn["steps"]:
        if st.get("cmd") == "retype":
            for t in tasks:
                if "//%s:%s" % (t.get("pkg", ""), t["name"]) == st["task"]:
                    t["kind"] = st["kind"]
        if st is upto:
            break
    return tasks


def to_store_trace(hid, scn, hist):
    """Raw history -> StoreObs trace (numbers only).  The task graph is the one of the sources as they are at the END of the
    history (retype steps are only placed after the last run and before the archive steps that consult the graph)."""
    I = Interner()
    tasks = retyped_tasks(scn)
    has_args = {"//%s:%s" % (t.get("pkg", ""), t["name"]): (t.get("args") or False, t.get("options") or False)
                for t in scn["project"]["tasks"] if t["kind"] == "run_experiment"}
    idents = ["//%s:%s" % (t.get("pkg", ""), t["name"]) for t in tasks]
    from .runobs import resolve_dep, KIND
    num = {i: k + 1 for k, i in enumerate(idents)}
    graph = {"deps": [[num.get(resolve_dep(dd, t.get("pkg", "")), 0) for dd in t.get("deps", [])] for t in tasks],
             "kind": [KIND[t["kind"]] for t in tasks], "ident": [I("id:" + i) for i in idents]}
    steps = []
    for s in hist["steps"]:
        b = abstract_state(s["before"], I, s["obefore"], has_args)
        a = abstract_state(s["after"], I, s["oafter"], has_args)
        e = {"cmd": s["cmd"], "exit": s["exit"], "crashed": s["crashed"], "before": b, "after": a}
        if s["cmd"] == "run":
            bkeys = {(v["task"], v["ts"]) for v in s["before"]["vdirs"].values()}
            sp = []
            for r in s["spawns"]:
                ident, ts = _ident_from_out(r["out"], hist["root"])
                if not ts:
                    continue
                code = r["code"]
                code = 0 if code == "0" else (137 if code == "kill" else (int(code) if code and code.isdigit() else 1))
                late = 1 if [ident, ts] in (s.get("late_writes") or []) else 0
                sp.append([I("id:" + ident), ts, 1 if (ident, ts) in bkeys else 0, 1 if r["listing"] == "" else 0, code, late])
            e["spawns"] = sp
            e["head"] = I("c:" + s["head"]) if s.get("head") else 0
            e["dirty"] = 1 if s.get("dirty") else 0
        elif s["cmd"] == "gcdry":
            e["listed"] = [[I("id:" + str(i)), ts] for i, ts in s["listed"]]
        elif s["cmd"] == "roundtrip":
            sel = s["sel"]
            e["sel"] = {"all": sel.get("task") is None, "task": num.get(sel.get("task"), 0), "latest": bool(sel.get("latest")),
                        "expectFail": False, "ids": []}
        elif s["cmd"] == "archive":
            sel = s["sel"]
            e["sel"] = {"all": sel.get("task") is None, "task": num.get(sel.get("task"), 0), "latest": bool(sel.get("latest")),
                        "expectFail": bool(sel.get("expectFail")), "ids": []}
            tar = s.get("tar") or {"rows": [], "members": []}
            e["arows"] = [[I("id:" + r["task"]), r["ts"], I("c:" + r["commit"]) if r["commit"] else 0, 1 if r["dirty"] else 0]
                          for r in tar["rows"]]
            e["members"] = [[I("id:" + m["task"]), m["ts"]] for m in tar["members"]]
        elif s["cmd"] == "restore":
            tar = s.get("tar") or {"rows": [], "members": []}
            e["arch"] = {"rows": [[I("id:" + r["task"]), r["ts"], I("c:" + r["commit"]) if r["commit"] else 0,
                                   1 if r["dirty"] else 0] for r in tar["rows"]],
                         "members": [[I("id:" + m["task"]), m["ts"], I("d:" + str(m["digest"]))] for m in tar["members"]],
                         "defect": s.get("defect", "none")}
        steps.append(e)
    return {"id": hid, "graph": graph, "steps": steps}


def judge(traces, timeout=900):
    if not traces:
        return {}, None
    with C.Scratch("sjudge") as d:
        f = os.path.join(d, "hist.ndjson")
        with open(f, "w") as fh:
            for t in traces:
                fh.write(json.dumps(t) + "\n")
        res = C.run_tlc("StoreObs_Trace.tla", cfg="StoreObs_Trace.cfg", workers=1, timeout=timeout,
                        env={"TRACE_FILE": f})
    verdicts = {}
    for v in C.tlc_printed_json(res):
        if isinstance(v, dict) and "id" in v:
            verdicts[v["id"]] = sorted((x[0], x[1]) for x in v.get("viol", []))
    if res.error or res.timed_out or len(verdicts) != len(traces):
        raise C.MachineryError("TLC store judge failed: %d/%d verdicts; %s" % (
            len(verdicts), len(traces), (res.error or res.output[-2500:])))
    return verdicts, res
