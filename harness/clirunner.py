"""B3: run any `cond` sub-command in-process on a real scratch project with REAL child processes and an optional
fake clock; project the on-disk state afterwards.  B4 (crash injection at effectful C calls) builds on it.

run_cli must be called in a forked child (it changes cwd, argv, time.time, sys.std*)."""
import hashlib
import io
import os
import re
import stat
import sys
import time
import warnings

from . import project as P

ANSI = re.compile(r"\x1b\[[0-9;]*m")


class _Cap(io.TextIOWrapper):
    pass


def run_cli(root, argv, cwd="", clock=None, stdin_text=None, env=None, profile=None):
    """Returns {"status": int|"EXC", "stdout": str, "stderr": str, "exc": str|None}.
    Child processes inherit fds 1/2, so those are redirected at the fd level to temp files."""
    warnings.simplefilter("ignore")
    import conductor.__main__ as cm

    if clock is not None:
        if callable(clock):
            time.time = clock
        else:
            base = float(clock)
            time.time = lambda: base
    if env:
        os.environ.update(env)
    os.chdir(os.path.join(root, cwd))
    sys.argv = ["cond"] + list(argv)
    out_path = os.path.join(root, "..", "stdout.%d.txt" % os.getpid())
    err_path = os.path.join(root, "..", "stderr.%d.txt" % os.getpid())
    sys.stdout.flush()
    sys.stderr.flush()
    so, se = os.dup(1), os.dup(2)
    fo = os.open(out_path, os.O_WRONLY | os.O_CREAT | os.O_TRUNC)
    fe = os.open(err_path, os.O_WRONLY | os.O_CREAT | os.O_TRUNC)
    os.dup2(fo, 1)
    os.dup2(fe, 2)
    old_out, old_err, old_in = sys.stdout, sys.stderr, sys.stdin
    sys.stdout = io.TextIOWrapper(io.FileIO(1, "w", closefd=False), write_through=True, encoding="utf-8")
    sys.stderr = io.TextIOWrapper(io.FileIO(2, "w", closefd=False), write_through=True, encoding="utf-8")
    if stdin_text is not None:
        sys.stdin = io.StringIO(stdin_text)
    status, exc = 0, None
    try:
        if profile is not None:
            sys.setprofile(profile)
        try:
            cm.main()
        finally:
            sys.setprofile(None)
    except SystemExit as e:
        status = e.code if isinstance(e.code, int) else (0 if e.code is None else 1)
    except BaseException as e:  # noqa
        status = "EXC"
        exc = "%s: %s" % (type(e).__name__, e)
        import traceback
        try:
            sys.stderr.write(traceback.format_exc())
        except Exception:
            pass
    finally:
        try:
            sys.stdout.flush()
            sys.stderr.flush()
        except Exception:
            pass
        os.dup2(so, 1)
        os.dup2(se, 2)
        for fd in (so, se, fo, fe):
            os.close(fd)
        sys.stdout, sys.stderr, sys.stdin = old_out, old_err, old_in
    with open(out_path, "rb") as f:
        out_b = f.read()
    with open(err_path, "rb") as f:
        err_b = f.read()
    out, err = out_b.decode("utf-8", "replace"), err_b.decode("utf-8", "replace")
    os.unlink(out_path)
    os.unlink(err_path)
    err_c = ANSI.sub("", err)
    kind = "Traceback" if ("Traceback (most recent call last)" in err_c or status == "EXC") else (
        "ERROR" if "ERROR:" in err_c else "none")
    return {"status": status, "stdout": ANSI.sub("", out), "stderr": err_c, "exc": exc, "stderr_kind": kind,
            "stdout_bytes": out_b if len(out_b) < (64 << 20) else None, "stderr_bytes": err_b if len(err_b) < (64 << 20) else None}


def file_digest(path):
    h = hashlib.sha1()
    try:
        with open(path, "rb") as f:
            while True:
                b = f.read(1 << 16)
                if not b:
                    break
                h.update(b)
    except OSError as e:
        return "unreadable:%s" % e.errno
    return h.hexdigest()[:16]


def snapshot_tree(base):
    """relpath -> 'd' | 'f:<digest>' | 'l:<target>' for everything under base (symlinks not followed)."""
    out = {}
    if not os.path.lexists(base):
        return out
    for dirpath, dirnames, filenames in os.walk(base, followlinks=False):
        rel = os.path.relpath(dirpath, base)
        rel = "" if rel == "." else rel
        for d in list(dirnames):
            p = os.path.join(dirpath, d)
            r = os.path.join(rel, d) if rel else d
            if os.path.islink(p):
                out[r] = "l:" + os.readlink(p)
                dirnames.remove(d)
            else:
                out[r] = "d"
        for f in filenames:
            p = os.path.join(dirpath, f)
            r = os.path.join(rel, f) if rel else f
            if os.path.islink(p):
                out[r] = "l:" + os.readlink(p)
            else:
                st = os.lstat(p)
                if stat.S_ISREG(st.st_mode):
                    out[r] = "f:" + file_digest(p)
                else:
                    out[r] = "o:%o" % stat.S_IFMT(st.st_mode)
    return out


def subtree_digest(tree, prefix):
    """Digest of everything under `prefix` in a snapshot_tree result (None if prefix absent)."""
    if prefix not in tree:
        return None
    h = hashlib.sha1()
    h.update(tree[prefix].encode())
    pre = prefix + "/"
    for k in sorted(tree):
        if k.startswith(pre):
            h.update(k[len(pre):].encode("utf-8", "surrogateescape"))
            h.update(b"\0")
            h.update(tree[k].encode("utf-8", "surrogateescape"))
            h.update(b"\0")
    return h.hexdigest()[:16]


VDIR = re.compile(r"^(?P<name>[A-Za-z0-9_-]+)\.task\.(?P<ts>[1-9][0-9]*)$")
TDIR = re.compile(r"^(?P<name>[A-Za-z0-9_-]+)\.task$")
INDEX_FILES = ("version_index.sqlite", "version_index.sqlite-journal", "version_index.sqlite-wal",
               "version_index.sqlite-shm")


def _decode_record(path):
    """args.json / options.json of a version directory, decoded (strict UTF-8 JSON) or a marker."""
    import json
    try:
        with open(path, "rb") as f:
            return json.loads(f.read().decode("utf-8"))
    except Exception as e:  # noqa: BLE001
        return "<undecodable: %s>" % type(e).__name__


LEGAL_SEGMENT = re.compile(r"^[A-Za-z0-9_-]+\Z")


def staging_name():
    """The name Conductor itself uses for the staging directory of restore (the subject's own constant)."""
    try:
        from conductor.config import ARCHIVE_STAGING
        return ARCHIVE_STAGING
    except Exception:  # noqa: BLE001
        return "archive-tmp"


def project_store(root):
    """Abstract Store state of a project: index rows, version directories at task positions (with digests),
    plain task dirs, staging leftovers, everything else."""
    out = os.path.join(root, "cond-out")
    tree = snapshot_tree(out)
    rows = P.read_index(root)
    vdirs, tdirs, other = {}, {}, []
    # task positions: reached from cond-out through directories that are not task directories
    def walk(rel):
        base = os.path.join(out, rel) if rel else out
        try:
            names = sorted(os.listdir(base))
        except OSError:
            return
        for nme in names:
            r = os.path.join(rel, nme) if rel else nme
            kind = tree.get(r)
            if kind != "d":
                if not (rel == "" and nme in INDEX_FILES):
                    other.append(r)
                continue
            m = VDIR.match(nme)
            if m:
                vdirs[r] = {"task": "//%s:%s" % (rel, m.group("name")), "ts": int(m.group("ts")),
                            "digest": subtree_digest(tree, r),
                            "files": sorted(k[len(r) + 1:] for k in tree if k.startswith(r + "/")),
                            "records": {nm: _decode_record(os.path.join(out, r, nm)) for nm in ("args.json", "options.json")
                                        if os.path.isfile(os.path.join(out, r, nm))}}
                continue
            if TDIR.match(nme):
                tdirs[r] = {"digest": subtree_digest(tree, r)}
                continue
            if rel == "" and nme == staging_name() and not LEGAL_SEGMENT.match(nme):
                # the staging directory of `cond restore` - as long as its name cannot be a package path segment; a name that
                # is also a legal package name is a package directory like any other (it may hold recorded versions)
                other.append(r)
                continue
            walk(r)
    walk("")
    return {"rows": rows, "vdirs": vdirs, "tdirs": tdirs, "other": sorted(other), "tree": tree}
