"""Shared pieces of the `cond run` checks (C01-C04, C07, C09, C16, C02): graph instances -> scenarios,
batch execution under the FakeKernel, judging by RunObs through TLC."""
import itertools
import json
import os
import random
import shutil

from . import common as C
from . import fakekernel as FK
from . import project as P
from . import runobs as R

KIND_SRC = {"exp": "run_experiment", "cmd": "run_command", "group": "group", "combine": "combine"}
PLACEMENTS = [["", "", "", "", "", ""], ["", "p", "", "p", "", "p"], ["p/q", "", "p", "p/q", "", "p"],
              ["p", "p", "p", "p", "p", "p"]]


def warm():
    import conductor.__main__  # noqa: F401  (import once in the parent; children are forked)


def ident_of(pkgs, k):
    return "//%s:t%d" % (pkgs[k - 1], k)


def dep_spelling(pkgs, t, d, style):
    """How task t spells its dependency d in the COND file."""
    if pkgs[t - 1] == pkgs[d - 1] and style % 2 == 0:
        return ":t%d" % d
    return "//%s:t%d" % (pkgs[d - 1], d)


def scenario_from_graph(g, placement=0, jobs=1, stop=False, sched=None, git_tpl=None, extra_argv=(), target=None,
                        args=None, options=None, force_git=False):
    """g: dict with n, deps (1-based lists), kind (exp|cmd|group|combine), par, cachedTs, stale, again, atLeast,
    now, lastTs0 (as exported by Planner.tla)."""
    n = g["n"]
    pkgs = PLACEMENTS[placement % len(PLACEMENTS)][:n] if n <= 6 else [""] * n
    tasks = []
    for t in range(1, n + 1):
        kind = g["kind"][t - 1]
        tk = {"pkg": pkgs[t - 1], "name": "t%d" % t, "kind": KIND_SRC[kind],
              "deps": [dep_spelling(pkgs, t, d, placement + t + d) for d in g["deps"][t - 1]],
              "par": bool(g["par"][t - 1])}
        if args and kind in ("exp", "cmd"):
            tk["args"] = args.get(t, [])
        if options and kind in ("exp", "cmd"):
            tk["options"] = options.get(t, {})
        tasks.append(tk)
    rows = []
    use_git = bool(g.get("atLeast")) or (force_git and bool(git_tpl))
    commits = git_tpl["commits"] if (use_git and git_tpl) else None
    cached = g.get("cachedTs", [0] * n)
    stale = g.get("stale", [False] * n)
    for t in range(1, n + 1):
        if cached[t - 1]:
            commit = None
            if use_git:
                if stale[t - 1]:
                    commit = commits[0] if (t + placement) % 2 == 0 else None
                else:
                    commit = commits[1] if (t + placement) % 2 == 0 else commits[2]
            rows.append({"task": ident_of(pkgs, t), "ts": cached[t - 1], "commit": commit, "dirty": False})
    if use_git and placement % 3 == 1 and git_tpl.get("side"):
        # an experiment WITHOUT a usable result may still have history: a version recorded while git was switched off (no
        # commit) next to one recorded on another branch (a commit that is no ancestor of HEAD).
        # By the documented rule neither may be used (results of a non-ancestor commit exist, so the commit-less one is not
        # trusted either): the task is as uncached as before
        for t in range(1, n + 1):
            if g["kind"][t - 1] == "exp" and not cached[t - 1]:
                rows.append({"task": ident_of(pkgs, t), "ts": 1, "commit": None, "dirty": False})
                rows.append({"task": ident_of(pkgs, t), "ts": 2, "commit": git_tpl["side"], "dirty": False})
    mx = g.get("lastTs0", 0)
    if mx and not any(r["ts"] == mx for r in rows):
        rows.append({"task": "//:zz", "ts": mx, "commit": None, "dirty": False})
    dirs = [{"task": r["task"], "ts": r["ts"], "files": {"result.txt": "old\n"}} for r in rows]
    tgt = target if target is not None else g.get("target", n)
    argv = ["run", ident_of(pkgs, tgt)]
    if g.get("again"):
        argv.append("--again")
    if g.get("atLeast"):
        argv += ["--at-least", commits[1]]
    if jobs != 1:
        argv += ["-j", str(jobs)]
    if stop:
        argv.append("--stop-early")
    argv += list(extra_argv)
    must = g.get("mustRun")
    scn = {
        "_g": {k: g.get(k) for k in ("n", "target", "deps", "kind", "par", "cachedTs", "again", "now", "lastTs0")},
        "project": {"config": "" if use_git else "disable_git = true\n", "tasks": tasks, "index": rows, "dirs": dirs},
        "argv": argv, "clock": g.get("now", 1000), "sched": sched or {"seed": 0},
        "git": bool(use_git),
    }
    if must is not None:
        scn["reusable_override"] = {ident_of(pkgs, t): (not must[t - 1]) for t in range(1, n + 1)
                                    if g["kind"][t - 1] == "exp"}
    elif use_git:
        scn["reusable_override"] = {ident_of(pkgs, t): bool(cached[t - 1]) and not stale[t - 1]
                                    for t in range(1, n + 1) if g["kind"][t - 1] == "exp"}
    return scn


def rename_local(scn):
    """Give tasks package-LOCAL names (u1, u2, ... counted per package) instead of the project-wide t1..tn, so that tasks in
    different packages share a bare name (//p:u1, //:u1, //p/q:u1).  Everything that mentions a task is rewritten."""
    tasks = scn["project"]["tasks"]
    count, mp = {}, {}
    for t in tasks:
        pkg = t.get("pkg", "")
        count[pkg] = count.get(pkg, 0) + 1
        mp["//%s:%s" % (pkg, t["name"])] = "u%d" % count[pkg]

    def new_ident(ident):
        pkg = ident[2:].split(":")[0]
        return "//%s:%s" % (pkg, mp[ident]) if ident in mp else ident
    for t in tasks:
        pkg = t.get("pkg", "")
        nd = []
        for d in t.get("deps", []):
            full = R.resolve_dep(d, pkg)
            if full not in mp:
                nd.append(d)
            elif d.startswith(":"):
                nd.append(":" + mp[full])
            else:
                nd.append(d.rsplit(":", 1)[0] + ":" + mp[full])
        t["deps"] = nd
    for t in tasks:
        t["name"] = mp["//%s:%s" % (t.get("pkg", ""), t["name"])]
    for r in scn["project"].get("index") or []:
        r["task"] = new_ident(r["task"])
    for d in scn["project"].get("dirs") or []:
        d["task"] = new_ident(d["task"])
    scn["argv"] = [new_ident(a) if isinstance(a, str) and a.startswith("//") else a for a in scn["argv"]]
    sch = scn.get("sched") or {}
    if "codes" in sch:
        sch["codes"] = {new_ident(k): v for k, v in sch["codes"].items()}
    if "fail_launch" in sch:
        sch["fail_launch"] = [new_ident(k) for k in sch["fail_launch"]]
    if "reusable_override" in scn:
        scn["reusable_override"] = {new_ident(k): v for k, v in scn["reusable_override"].items()}
    scn["local_names"] = True
    return scn


def make_git_template(dirpath):
    """A repository with three commits c1 <- c2 <- c3 (HEAD). Returns {"path", "commits": [c1,c2,c3]}."""
    os.makedirs(dirpath, exist_ok=True)
    P.git(dirpath, "init", "-q")
    commits = []
    for i in range(3):
        with open(os.path.join(dirpath, "f.txt"), "w") as f:
            f.write("v%d\n" % i)
        P.git(dirpath, "add", "f.txt")
        P.git(dirpath, "commit", "-q", "-m", "c%d" % i)
        commits.append(P.git(dirpath, "rev-parse", "HEAD"))
    # ... and a commit on another branch (forked from c1) that is NO ancestor of HEAD
    P.git(dirpath, "checkout", "-q", "-b", "side", commits[0])
    with open(os.path.join(dirpath, "side.txt"), "w") as f:
        f.write("side\n")
    P.git(dirpath, "add", "side.txt")
    P.git(dirpath, "commit", "-q", "-m", "side")
    side = P.git(dirpath, "rev-parse", "HEAD")
    P.git(dirpath, "checkout", "-q", "-f", "-")
    assert P.git(dirpath, "rev-parse", "HEAD") == commits[2]
    return {"path": dirpath, "commits": commits, "side": side}


_GIT_TPL = None


def run_one(scn):
    """Runs in a forked child."""
    import tempfile
    d = tempfile.mkdtemp(prefix="cvrun_", dir=C.scratch_root())
    try:
        root = os.path.join(d, "p")
        if scn.get("git") and _GIT_TPL:
            shutil.copytree(_GIT_TPL["path"], root)
        P.write_project(root, scn["project"])
        if scn.get("cond_symlinks"):
            # COND files that are symbolic links to files kept elsewhere (one shared definition file linked into several
            # directories): the task still belongs to - and runs in - the directory that holds the link
            shared = os.path.join(root, "_shared_defs")
            os.makedirs(shared, exist_ok=True)
            for pkg in sorted({t.get("pkg", "") for t in scn["project"]["tasks"]} - {""}):
                src = os.path.join(root, pkg, "COND")
                if os.path.isfile(src) and not os.path.islink(src):
                    dst = os.path.join(shared, pkg.replace("/", "__") + ".COND")
                    shutil.move(src, dst)
                    os.symlink(os.path.relpath(dst, os.path.dirname(src)), src)
        for pkg, other in (scn.get("cond_links") or {}).items():
            # one COND file serving two packages: <pkg>/COND is a symbolic link to <other>/COND (same definitions in both)
            src = os.path.join(root, pkg, "COND")
            os.unlink(src)
            os.symlink(os.path.relpath(os.path.join(root, other, "COND"), os.path.dirname(src)), src)
        for plant in scn.get("plant", []):
            p = os.path.join(root, plant["path"])
            os.makedirs(os.path.dirname(p), exist_ok=True)
            if plant.get("dir"):
                os.makedirs(p, exist_ok=True)
            else:
                with open(p, "w") as f:
                    f.write(plant.get("content", "x"))
        res = FK.run_cond(scn, root)
        res.pop("line_log", None) if not scn.get("log_lines") else None
        return res
    finally:
        shutil.rmtree(d, ignore_errors=True)


def set_git_template(tpl):
    global _GIT_TPL
    _GIT_TPL = tpl


def run_batch(scns, timeout=600):
    return C.fork_map(run_one, scns, timeout=timeout)


def interposition_bypassed(res):
    """A process task was reported as completed although the interposed fork_exec never saw it: the subject no longer
    spawns through subprocess.Popen, so the FakeKernel observes nothing (a harness limitation, not a verdict)."""
    spawned = {e["t"] for e in res["events"] if e["e"] in ("Spawn", "SpawnFail")}
    done = {e["t"] for e in res["events"] if e["e"] == "Line" and e["kind"] in ("success", "failed")}
    return None


def judge_batch(scns, results, id_offset=0):
    """-> (verdicts {idx: [clauses]}, traces, machinery_errors)"""
    traces, errs = [], []
    for i, (s, r) in enumerate(zip(scns, results)):
        if r is None or "_error" in r or "_timeout" in r:
            errs.append((i, r))
            continue
        kinds = {"//%s:%s" % (t.get("pkg", ""), t["name"]): t["kind"] for t in s["project"].get("tasks", [])}
        spawned = {e["t"] for e in r["events"] if e["e"] in ("Spawn", "SpawnFail")}
        finished = {e["t"] for e in r["events"] if e["e"] == "Line" and e["kind"] == "success"}
        blind = [t for t in finished - spawned if kinds.get(t) in ("run_experiment", "run_command")]
        if blind and not spawned:
            errs.append((i, {"_error": "process layer not interposed: %s completed without any fork_exec being observed "
                                       "(the subject does not spawn through subprocess.Popen any more)" % blind}))
            continue
        traces.append(R.to_obs_trace(id_offset + i, s, r))
    verdicts, tr = R.judge(traces)
    return verdicts, traces, errs, tr


# ------------------------------------------------------------------ graph generators (python side)


def ordered_dep_lists(t):
    """All dependency lists (without repetition, every order) of task t over tasks 1..t-1."""
    out = []
    prev = list(range(1, t))
    for k in range(len(prev) + 1):
        for sub in itertools.permutations(prev, k):
            out.append(list(sub))
    return out


def random_graph(rng, n, kinds=("exp", "cmd", "group", "combine"), p_cached=0.2, p_par=0.6, dense=0.5):
    deps = []
    for t in range(1, n + 1):
        prev = [d for d in range(1, t) if rng.random() < dense]
        rng.shuffle(prev)
        deps.append(prev)
    # make the last task reach a good part of the graph
    kind = [rng.choice(kinds) for _ in range(n)]
    # combine requires distinct dependency *names*: names are unique here (t1..tn), fine
    par = [kind[i] in ("exp", "cmd") and rng.random() < p_par for i in range(n)]
    cached = [5 if (kind[i] == "exp" and rng.random() < p_cached) else 0 for i in range(n)]
    return {"n": n, "target": n, "deps": deps, "kind": kind, "par": par, "cachedTs": cached,
            "stale": [False] * n, "again": False, "atLeast": False, "now": 1000, "lastTs0": 5 if any(cached) else 0}


def reach(g, t):
    seen, st = set(), [t]
    while st:
        x = st.pop()
        for d in g["deps"][x - 1]:
            if d not in seen:
                seen.add(d)
                st.append(d)
    return seen
