"""Scenario generators for the version-store checks (C06 C08 C11 C12 C13 C17 C18)."""
import random

from . import store as S

# the last package is NAMED like an output directory with other separators (<word>_task_<n>): directory-name patterns that
# forget to escape their dots would take its cond-out directory for a version directory
# (the last package carries the one name Conductor uses itself under cond-out that is also a legal package name: the staging
# directory of `cond restore`)
EXPS = [("", "a"), ("pk", "b"), ("pk/sub", "c"), ("", "d"), ("w_task_3", "w"), ("archive-tmp", "s")]


def base_project(rng, git=False, with_args=True, extra_kinds=True):
    """Experiments a (root), b (pk), c (pk/sub), d (root); a command, a group, a combine; dependencies vary."""
    tasks = []
    shape = rng.randrange(4)
    deps = {
        0: {"a": [], "b": ["//:a"], "c": ["//pk:b"], "d": [], "w": [], "s": []},
        1: {"a": [], "b": [], "c": [], "d": ["//:a"], "w": ["//:a"], "s": []},
        2: {"a": [], "b": ["//:a"], "c": ["//:a", "//pk:b"], "d": ["//pk/sub:c", "//:a"], "w": [], "s": ["//:a"]},
        3: {"a": [], "b": ["//:cmd"], "c": ["//:grp"], "d": [], "w": [], "s": []},
    }[shape]
    for pkg, name in EXPS:
        args = [rng.choice([1, "x", True])] if (with_args and rng.random() < 0.5) else None
        opts = {"k": rng.choice([2, "v"])} if (with_args and rng.random() < 0.4) else None
        tasks.append(S.exp_task(pkg, name, deps=deps[name], args=args, options=opts))
    tasks.append(S.exp_task("", "cmd", deps=["//:a"] if shape != 3 else [], kind="run_command"))
    tasks.append(S.exp_task("", "grp", deps=["//:a", "//:d"] if shape != 2 else ["//:a"], kind="group"))
    tasks.append(S.exp_task("", "all", deps=["//:grp", "//pk/sub:c", "//pk:b", "//:d", "//:cmd", "//w_task_3:w", "//archive-tmp:s"], kind="group"))
    tasks.append(S.exp_task("pk", "comb", deps=["//:a", "//pk:b"], kind="combine"))
    return {"config": "" if git else "disable_git = true\n", "tasks": tasks}


def exits(rng, p_fail=0.3):
    out = {}
    for _, name in EXPS:
        if rng.random() < p_fail:
            out[name] = rng.choice([1, 3, "kill"])
    return out


def tidy_choice(rng, proj, p=0.3):
    """Tasks that clear *.json in their output directory when they start ("rm"), or also write their own args.json /
    options.json ("clobber": only for tasks that declare both, so that Conductor's records must replace them)."""
    out = {}
    for t in proj["tasks"]:
        if t["kind"] == "run_experiment" and rng.random() < p:
            out[t["name"]] = "clobber" if (t.get("args") and t.get("options")) else "rm"
    return out


def run_step(rng, clock, target="//:all", again=None, p_fail=0.3, jobs=None, label=None):
    argv = ["run", target]
    if again if again is not None else rng.random() < 0.5:
        argv.append("--again")
    if jobs:
        argv += ["-j", str(jobs)]
    return {"cmd": "run", "argv": argv, "clock": clock, "exits": exits(rng, p_fail), "label": label}


def gc_plants(rng):
    """Manual additions to cond-out that gc must leave alone / must remove."""
    cands = [
        {"path": "cond-out/a.task/keep.txt", "kind": "file"},
        {"path": "cond-out/cmd.task/x.task.7", "kind": "dir", "files": {"f": "inside a task dir"}},
        {"path": "cond-out/stray.txt", "kind": "file"},
        {"path": "cond-out/pk/notes", "kind": "dir", "files": {"n.txt": "n"}},
        {"path": "cond-out/x.taskfoo", "kind": "dir", "files": {"n.txt": "n"}},
        {"path": "cond-out/zz.task.55", "kind": "dir", "files": {"old": "unrecorded, unknown task"}},
        {"path": "cond-out/pk/a.task.100", "kind": "dir", "files": {"w": "same name and id as //:a, other package"}},
        {"path": "cond-out/pk/sub/c.task.3", "kind": "dir", "files": {"w": "unrecorded"}},
        {"path": "cond-out/pk/deeper/new/e.task.9", "kind": "dir", "files": {"w": "unrecorded in unknown package"}},
        {"path": "cond-out/linkout", "kind": "symlink", "target": "../../outside"},
        {"path": "cond-out/previous", "kind": "symlink", "target": "../cond-out-2023"},
        {"path": "cond-out/pk/older", "kind": "symlink", "target": "../../cond-out-2023/sweep"},
        {"path": "cond-out/pk/linkin", "kind": "symlink", "target": "../pk"},
        {"path": "cond-out/d.task.1/sub/y.task.2", "kind": "dir", "files": {"w": "inside unrecorded"}},
        # regular FILES whose names look like experiment outputs (a note, a tarball somebody renamed): not output directories
        {"path": "cond-out/notes.task.77", "kind": "file"},
        {"path": "cond-out/pk/a.task.1234567890", "kind": "file"},
    ]
    k = rng.randrange(2, len(cands) + 1)
    return rng.sample(cands, k)
