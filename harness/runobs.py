"""Scenario + recorded events -> RunObs trace (ints only), and the TLC judge for batches of traces."""
import json
import os
import re

from . import common as C
from . import project as P


def resolve_dep(dep, pkg):
    if dep.startswith(":"):
        return "//%s:%s" % (pkg, dep[1:])
    if dep.startswith("//"):
        path, name = dep[2:].split(":")
        return "//%s:%s" % (path.strip("/"), name)
    return dep


def task_ident(t):
    return "//%s:%s" % (t.get("pkg", ""), t["name"])


KIND = {"run_experiment": "exp", "run_command": "cmd", "group": "group", "combine": "combine"}


def render_prim(v):
    if isinstance(v, bool):
        return "true" if v else "false"
    return str(v)


def build_cfg(scn):
    tasks = scn["project"]["tasks"]
    ids = [task_ident(t) for t in tasks]
    num = {i: k + 1 for k, i in enumerate(ids)}
    rows = scn["project"].get("index") or []
    again = "--again" in scn["argv"] or "-a" in scn["argv"]
    reusable, rts = [], []
    for t, i in zip(tasks, ids):
        mine = [r["ts"] for r in rows if r["task"] == i]
        ok = t["kind"] == "run_experiment" and bool(mine) and not again
        if "reusable_override" in scn:
            ok = bool(scn["reusable_override"].get(i, ok))
        reusable.append(ok)
        rts.append(max(mine) if mine else 0)
    deps = []
    for t in tasks:
        deps.append([num.get(resolve_dep(d, t.get("pkg", "")), 0) for d in t.get("deps", [])])
    argv = scn["argv"]
    jobs = 1
    for k, a in enumerate(argv):
        if a in ("-j", "--jobs") and k + 1 < len(argv):
            jobs = int(argv[k + 1])
        elif a.startswith("-j") and a[2:].isdigit():
            jobs = int(a[2:])
    target = None
    for a in argv[1:]:
        if not a.startswith("-") and ":" in a:
            target = a
            break
    tgt = num.get(resolve_dep(target if target.startswith("//") else "//" + target, ""), 0)
    cfg = {
        "n": len(tasks), "target": tgt, "deps": deps,
        "kind": [KIND[t["kind"]] for t in tasks],
        "par": [bool(t.get("par")) for t in tasks],
        "reusable": reusable, "rts": rts,
        "pkg": [t.get("pkg", "") for t in tasks],
        "name": [t["name"] for t in tasks],
        "run": [(t.get("run", "true") if t["kind"] in ("run_experiment", "run_command") else "").split() for t in tasks],
        "args": [[render_prim(a) for a in t.get("args", [])] for t in tasks],
        "opts": [[[k, render_prim(v)] for k, v in t.get("options", {}).items()] for t in tasks],
        "jobs": jobs, "stop": ("--stop-early" in argv or "-e" in argv),
        "maxrow": max([r["ts"] for r in rows] or [0]),
        # B2 (real processes): Conductor's output lines are stamped when they ARRIVE on the pipe, i.e. possibly long after
        # they were printed, while process events carry exact stamps - a line may never be required to precede a process event
        "linesLate": bool(scn.get("real")),
    }
    return cfg, num


OUT_RE = re.compile(r"^(?P<name>[^/]+)\.task(\.(?P<ts>\d+))?$")


def parse_out(path, root, num):
    """absolute output dir -> (task number, ts, well-formed?)"""
    base = os.path.join(os.path.realpath(root), "cond-out")
    p = path
    if not p or not os.path.isabs(p):
        return 0, 0, False
    rel = os.path.relpath(p, base)
    if rel.startswith(".."):
        return 0, 0, False
    pkg, leaf = os.path.split(rel)
    m = OUT_RE.match(leaf)
    if not m:
        return 0, 0, False
    ident = "//%s:%s" % (pkg, m.group("name"))
    return num.get(ident, 0), int(m.group("ts") or 0), True


def to_obs_trace(tid, scn, res, root_hint=None):
    """res: result of fakekernel.run_cond / realproc run. Returns dict for RunObs_Trace."""
    cfg, num = build_cfg(scn)
    extra = {}

    def tn(ident):
        if ident in num:
            return num[ident]
        if ident not in extra:
            extra[ident] = cfg["n"] + len(extra) + 1
        return extra[ident]

    evs = []
    root = None
    rows0 = {(r["task"], r["ts"]) for r in (scn["project"].get("index") or [])}
    pend_abort = None
    for e in res["events"]:
        k = e["e"]
        if k == "Line":
            kind = e["kind"]
            if kind == "cached":
                evs.append({"e": "Cached", "t": tn(e["t"])})
            elif kind == "running":
                evs.append({"e": "Running", "t": tn(e["t"]), "k": e["k"], "n": e["n"]})
            elif kind == "skipping":
                evs.append({"e": "Skipping", "t": tn(e["t"]), "k": e["k"], "n": e["n"]})
            elif kind == "success":
                evs.append({"e": "Success", "t": tn(e["t"])})
            elif kind == "failed":
                evs.append({"e": "Failed", "t": tn(e["t"]),
                            "syncfail": e["t"] in scn.get("sync_fail", [])})
        elif k == "Spawn":
            env = e["env"]
            slot = env.get("COND_SLOT")
            if slot is None:
                sl = -1
            else:
                try:
                    sl = int(slot)
                    if sl < 0:
                        sl = 999
                except ValueError:
                    sl = 999
            if root is None:
                # project root: cwd minus package path
                t = e["t"]
                pkg = t[2:].split(":")[0]
                root = e["cwd"][: len(e["cwd"]) - len(pkg)].rstrip("/") if pkg else e["cwd"]
            ot, ots, okout = parse_out(env.get("COND_OUT") or "", root, num)
            depl = []
            cd = env.get("COND_DEPS")
            deps_ok = cd is not None
            if cd:
                for p in cd.split(":"):
                    dt, dts, okd = parse_out(p, root, num)
                    depl.append([dt, dts])
                    deps_ok = deps_ok and okd
            cmd = e["argv"][2] if len(e["argv"]) > 2 else ""
            evs.append({"e": "Spawn", "t": tn(e["t"]), "slot": sl, "ts": ots,
                        "outTask": ot, "outOk": okout, "outExists": e.get("out_listing") is not None,
                        "outListing": [x for x in (e.get("out_listing") or []) if x not in ("stdout.log", "stderr.log")],
                        "shell": e["argv"][0], "flag": e["argv"][1] if len(e["argv"]) > 1 else "",
                        "argc": len(e["argv"]),
                        "cmd": cmd.split(), "cwdPkg": ("" if os.path.relpath(e["cwd"], root) == "." else os.path.relpath(e["cwd"], root)),
                        "condName": env.get("COND_NAME") or "", "deps": depl, "depsOk": deps_ok,
                        "sess": bool(e.get("sess"))})
        elif k == "SpawnFail":
            evs.append({"e": "SpawnFail", "t": tn(e["t"])})
        elif k == "Exit":
            st = e["code"] if "code" in e else 1000 + e["sig"]
            evs.append({"e": "Exit", "t": tn(e["t"]), "st": st})
        elif k == "Kill":
            evs.append({"e": "Kill", "t": tn(e["t"]) if "t" in e else 0, "sig": e["sig"], "foreign": bool(e.get("foreign")),
                        "grp": bool(e.get("grp", True))})
        elif k == "Abort":
            evs.append({"e": "Abort", "live": [tn(res_task) for res_task in e.get("live_tasks", [])],
                        "file": e.get("file", ""), "line": e.get("line", 0)})
        elif k == "Return":
            st = e["exit"]
            hang = st == "HANG"
            exit_ = st if isinstance(st, int) else -1
            idx = res.get("index") or []
            newrows = sorted({tn(r["task"]) for r in idx if (r["task"], r["ts"]) not in rows0})
            for r in idx:
                if (r["task"], r["ts"]) not in rows0 and r["task"] in num:
                    evs.append({"e": "Row", "t": tn(r["task"]), "ts": r["ts"]})
            evs.append({"e": "Return", "exit": exit_, "hang": hang, "stderr": e["stderr_kind"],
                        "failed": [tn(x) for x in e["failed"]], "skipped": [tn(x) for x in e["skipped"]],
                        "newrows": newrows, "aborted": "abort-reported" in e.get("banners", [])})
    for ident, k in sorted(extra.items(), key=lambda x: x[1]):
        cfg["deps"].append([])
        cfg["kind"].append("cmd")
        cfg["par"].append(False)
        cfg["reusable"].append(False)
        cfg["rts"].append(0)
        cfg["pkg"].append("?")
        cfg["name"].append(ident)
        cfg["run"].append([])
        cfg["args"].append([])
        cfg["opts"].append([])
    cfg["n"] = len(cfg["kind"])
    # TLC integers are 32 bit: rebase large timestamps
    big = [e["ts"] for e in evs if e["e"] in ("Spawn", "Row") and e["ts"] > 10 ** 6]
    for e in evs:
        if e["e"] == "Spawn":
            for d in e["deps"]:
                if d[1] > 10 ** 6:
                    big.append(d[1])
    big += [x for x in cfg["rts"] if x > 10 ** 6] + ([cfg["maxrow"]] if cfg["maxrow"] > 10 ** 6 else [])
    if big:
        base = min(big) - 1000

        def rb(x):
            return x - base if x > 10 ** 6 else x

        for e in evs:
            if e["e"] == "Row":
                e["ts"] = rb(e["ts"])
            if e["e"] == "Spawn":
                e["ts"] = rb(e["ts"])
                e["deps"] = [[d[0], rb(d[1])] for d in e["deps"]]
        cfg["rts"] = [rb(x) for x in cfg["rts"]]
        cfg["maxrow"] = rb(cfg["maxrow"])
    return {"id": tid, "cfg": cfg, "events": evs}


def judge(traces, module="RunObs_Trace", timeout=900):
    """Run TLC over a batch of RunObs traces. Returns ({id: [clauses]}, TlcResult)."""
    if not traces:
        return {}, None
    with C.Scratch("judge") as d:
        f = os.path.join(d, "traces.ndjson")
        with open(f, "w") as fh:
            for t in traces:
                fh.write(json.dumps(t) + "\n")
        res = C.run_tlc(module + ".tla", cfg=module + ".cfg", workers=1, timeout=timeout,
                        env={"TRACE_FILE": f})
    verdicts = {}
    for v in C.tlc_printed_json(res):
        if isinstance(v, dict) and "id" in v:
            verdicts[v["id"]] = sorted(v.get("viol", []))
    if res.error or res.timed_out or len(verdicts) != len(traces):
        raise C.MachineryError("TLC judge failed: %d/%d verdicts; %s" % (
            len(verdicts), len(traces), (res.error or res.output[-2000:])))
    return verdicts, res


# --------------------------------------------------------------------------- implementation-shaped validation


def to_exec_trace(tid, scn, res):
    """FakeKernel events -> trace for Executor_Trace.tla (None when the scenario is outside what that module models)."""
    g = scn.get("_g")
    cfg, num = build_cfg(scn)
    if not g or cfg["stop"] or scn.get("abort_at") is not None or scn.get("abort_after_fork") is not None:
        return None
    if scn.get("git") or any(e["e"] in ("Kill", "Abort", "Hang") for e in res["events"]):
        return None
    if scn["sched"].get("unrelated") or scn.get("dup_spelling") or scn.get("ambient"):
        return None
    evs = []
    for e in res["events"]:
        k = e["e"]
        if k == "Line":
            kind = e["kind"]
            t = num.get(e["t"], 0)
            if kind == "cached":
                evs.append({"e": "Cached", "t": t})
            elif kind == "running":
                evs.append({"e": "Running", "t": t, "k": e["k"]})
            elif kind == "skipping":
                evs.append({"e": "Skipping", "t": t, "k": e["k"]})
            elif kind == "success":
                evs.append({"e": "Success", "t": t})
            elif kind == "failed":
                evs.append({"e": "Failed", "t": t})
        elif k == "Spawn":
            slot = e["env"].get("COND_SLOT")
            ot, ots, ok = parse_out(e["env"].get("COND_OUT") or "", os.path.dirname(os.path.dirname(e["env"].get("COND_OUT") or "/x/y"))
                                    if False else _root_of(e), num)
            evs.append({"e": "Spawn", "t": num.get(e["t"], 0), "slot": int(slot) if slot not in (None, "") else -1, "ts": ots})
        elif k == "SpawnFail":
            evs.append({"e": "SpawnFail", "t": num.get(e["t"], 0)})
        elif k == "Exit":
            evs.append({"e": "Exit", "t": num.get(e["t"], 0), "c": 0 if e.get("code") == 0 else 1})
        elif k == "Handler":
            evs.append({"e": "Handler"})
        elif k in ("Stop", "Cont"):
            evs.append({"e": k, "t": num.get(e["t"], 0)})
        elif k == "Return":
            st = e["exit"]
            evs.append({"e": "Return", "exit": st if isinstance(st, int) else -1})
    gg = dict(g)
    gg["par"] = [bool(x) for x in g["par"]]
    gg["cachedTs"] = list(g.get("cachedTs") or [0] * g["n"])
    gg["again"] = bool(g.get("again"))
    return {"id": tid, "g": gg, "jobs": cfg["jobs"], "stop": False, "events": evs}


def _root_of(e):
    t = e["t"]
    pkg = t[2:].split(":")[0]
    return e["cwd"][: len(e["cwd"]) - len(pkg)].rstrip("/") if pkg else e["cwd"]


def validate_exec(traces, timeout=1800):
    """-> {id: (reached, n)}: how far each trace could be consumed as a behaviour of Executor.tla."""
    if not traces:
        return {}, None
    with C.Scratch("xval") as d:
        f = os.path.join(d, "traces.ndjson")
        with open(f, "w") as fh:
            for t in traces:
                fh.write(json.dumps(t) + "\n")
        res = C.run_tlc("Executor_Trace.tla", cfg="Executor_Trace.cfg", workers=1, timeout=timeout, env={"TRACE_FILE": f}, dfs=True)
    out = {}
    for v in C.tlc_printed_json(res):
        if isinstance(v, dict) and "id" in v:
            out[v["id"]] = (v["reached"], v["n"])
    if res.error or res.timed_out or len(out) != len(traces):
        raise C.MachineryError("Executor_Trace validation failed (%d/%d): %s" % (len(out), len(traces), res.error or res.output[-2000:]))
    return out, res
