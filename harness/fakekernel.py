"""B1: run the real `cond` CLI in-process with the process layer interposed.

The real conductor code (argument validation, loading, planning, Executor.run_plan, SigchldHelper,
reporting, cli_command) and the real CPython subprocess.Popen lifecycle run unmodified.  Interposed:
subprocess._fork_exec, os.waitpid (+ the default argument captured by Popen._internal_poll),
os.getpgid, os.killpg, os.kill, signal.signal, os.pipe/os.close/os.read (self-pipe would-block detection).

Must be called in a forked child (harness.common.fork_map): it monkey-patches process-global state.
"""
import errno
import io
import os
import random
import re
import select
import signal
import subprocess
import sys
import threading
import time
import warnings

from . import project as P

ANSI = re.compile(r"\x1b\[[0-9;]*m")
REAL_PROGRAMS = ("git", "tar")


class HangDetected(BaseException):
    pass


class BudgetExceeded(BaseException):
    pass


# ----------------------------------------------------------------------------- choosers


class RandomChooser:
    def __init__(self, seed, p_exit=0.25, p_deliver=0.5, p_more=0.4):
        self.rng = random.Random(seed)
        self.p_exit, self.p_deliver, self.p_more = p_exit, p_deliver, p_more
        self.log = []

    def env_action(self, options, label):
        """options: list like ["none", ("exit", pid), ..., "deliver"] -> index"""
        cands = []
        for i, o in enumerate(options):
            if o == "none":
                continue
            if o == "deliver":
                if self.rng.random() < self.p_deliver:
                    cands.append(i)
            elif self.rng.random() < self.p_exit:
                cands.append(i)
        i = self.rng.choice(cands) if cands else 0
        self.log.append(i)
        return i

    def pick(self, n, label):
        i = self.rng.randrange(n)
        self.log.append(i)
        return i


class ScriptChooser:
    """Follows a prefix of choices, then always 0; records (choice, arity) for DFS."""

    def __init__(self, prefix):
        self.prefix = list(prefix)
        self.trail = []  # (choice, arity)

    def _next(self, n):
        k = len(self.trail)
        c = self.prefix[k] if k < len(self.prefix) else 0
        if c >= n:
            c = 0
        self.trail.append((c, n))
        return c

    def env_action(self, options, label):
        return self._next(len(options))

    def pick(self, n, label):
        return self._next(n)


def dfs_next_prefix(trail):
    """Given the (choice, arity) trail of the last run, the next prefix in DFS order or None."""
    t = list(trail)
    while t:
        c, n = t[-1]
        if c + 1 < n:
            return [x[0] for x in t[:-1]] + [c + 1]
        t.pop()
    return None


# ----------------------------------------------------------------------------- recorder streams


class _BytesRec:
    def __init__(self, fk, name):
        self.fk, self.name = fk, name
        self.data = bytearray()

    def write(self, b):
        with self.fk.lock:
            self.data += bytes(b)
        return len(b)

    def flush(self):
        pass


class _TextRec:
    """Stands in for sys.stdout / sys.stderr: Conductor's own text is parsed line by line into events
    (kept in order with process events); forwarded child bytes go to .buffer."""

    encoding = "utf-8"
    errors = "strict"

    def __init__(self, fk, name):
        self.fk, self.name = fk, name
        self.buffer = _BytesRec(fk, name)
        self.text = []
        self._partial = ""

    _busy = False

    def write(self, s):
        fk = self.fk
        if self._busy:
            # what io.BufferedWriter does when a signal handler (run from inside an interrupted write) prints to the same stream
            raise RuntimeError("reentrant call inside <_io.BufferedWriter name='<%s>'>" % self.name)
        if threading.current_thread() is threading.main_thread():
            fk.writes += 1
            if fk.abort_in_write is not None and fk.writes == fk.abort_in_write and not fk.aborted:
                # the abort signal arrives while Conductor's main thread is blocked in write(2) on this stream (a stalled pipe,
                # a paused terminal): CPython runs the Python-level handler from inside the write call, the stream still locked;
                # if the handler returns, the write goes on; if it raises, the write call raises
                self._busy = True
                try:
                    fk.inject_abort("<write to %s>" % self.name, 0, "write")
                finally:
                    self._busy = False
                if not fk.aborted:
                    fk.abort_in_write += 1
        with self.fk.lock:
            self.text.append(s)
            self._partial += s
            while "\n" in self._partial:
                line, self._partial = self._partial.split("\n", 1)
                self.fk.on_line(self.name, line)
        return len(s)

    def flush(self):
        pass

    def isatty(self):
        return False

    def fileno(self):
        raise io.UnsupportedOperation("fileno")

    def getvalue(self):
        return "".join(self.text)


# ----------------------------------------------------------------------------- the fake kernel


class FakeKernel:
    def __init__(self, scn, chooser):
        self.scn = scn
        self.sched = scn.get("sched", {})
        self.chooser = chooser
        self.lock = threading.RLock()
        self.events = []
        self.proc = {}  # pid -> running|zombie|reaped
        self.status = {}  # pid -> raw wait status
        self.task_of = {}  # pid -> identifier
        self.real = set()  # real pids (git, tar)
        self.next_pid = 70001
        self.pending = False
        self.handlers = {}
        self.pipes = {}  # read fd -> write fd for pipes created by os.pipe in this process
        self.wends = {}
        self.in_handler = 0
        self.env_actions = 0
        self.max_env_actions = self.sched.get("max_env_actions", 400)
        self.allow_steal = self.sched.get("allow_steal", False)
        self.codes = self.sched.get("codes", {})
        self.fail_launch = set(self.sched.get("fail_launch", []))
        self.term_kills = self.sched.get("term_kills", True)
        self.points = 0
        self.lines = 0
        self.abort_at = scn.get("abort_at")
        self.abort_in_write = scn.get("abort_in_write")   # ordinal of the main thread's write to stdout / stderr
        self.writes = 0
        # the most recently spawned running child exits and SIGCHLD is handled right before the k-th executed line of
        # Conductor's own code (a signal handler can run between any two lines, not only around system calls)
        self.sigchld_at = scn.get("sigchld_at")
        self.abort_sig = scn.get("abort_sig", "SIGINT")
        self.abort_after_fork_of = scn.get("abort_after_fork")  # ordinal of spawn after which to abort
        self.aborted = False
        self.spawn_count = 0
        self.acts_since_spawn = 0
        self.report_section = None
        self.failed_list, self.skipped_list = [], []
        self.banners = []
        self.root = None
        self.trace_files = scn.get("trace_scope", "conductor")
        self.line_log = None
        self.in_del = 0
        self.wakeup_fd = -1          # signal.set_wakeup_fd: written by the (emulated) C-level handler
        self.late = False            # a signal whose C-level handler ran in the window between the last signal check of
                                     # the main thread and its blocking read(): the Python-level handler cannot run
                                     # until the read returns (or another signal interrupts it)
        self.allow_late = self.sched.get("allow_late", False)
        # job control: a running task process may be stopped (SIGSTOP/SIGTSTP from outside) and continued later; the parent
        # gets SIGCHLD for both (CPython installs handlers without SA_NOCLDSTOP) and waitpid reports the stop only when
        # asked with WUNTRACED
        self.allow_stop = self.sched.get("allow_stop", False)
        self.stop_unreported = set()
        self.stops_done = 0
        self.was_stopped = set()       # a process is stopped at most once (as in Executor.tla: running -> stopped -> resumed)
        self.reports = 0               # completions reported so far ("completed successfully" / "failed" lines)
        self.reported_tasks = set()
        self.reaped_at = {}            # pid -> value of self.reports when it was reaped
        if self.sched.get("unrelated"):
            # a child of this process that Conductor did not start (exits some time during the run)
            self.proc[60001] = "running"
            self.task_of[60001] = "//:__unrelated__"

    # ---- events
    def ev(self, **kw):
        with self.lock:
            self.events.append(kw)

    def on_line(self, stream, raw):
        self.acts_since_spawn += 1
        line = ANSI.sub("", raw)
        s = line.strip()
        if stream == "stderr":
            return
        m = re.match(r"^✓ Using cached results for (\S+)\.$", s)
        if m:
            return self.ev(e="Line", kind="cached", t=m.group(1))
        m = re.match(r"^✱ Running (\S+)\.\.\. \((\d+)/(\d+)\)$", s)
        if m:
            return self.ev(e="Line", kind="running", t=m.group(1), k=int(m.group(2)), n=int(m.group(3)))
        m = re.match(r"^✱ Skipping (\S+)\. \((\d+)/(\d+)\)$", s)
        if m:
            return self.ev(e="Line", kind="skipping", t=m.group(1), k=int(m.group(2)), n=int(m.group(3)))
        m = re.match(r"^✓ (\S+) completed successfully\.$", s)
        if m:
            self.reports += 1
            self.reported_tasks.add(m.group(1))
            return self.ev(e="Line", kind="success", t=m.group(1))
        m = re.match(r"^✘ (\S+) failed\.$", s)
        if m:
            self.reports += 1
            self.reported_tasks.add(m.group(1))
            return self.ev(e="Line", kind="failed", t=m.group(1))
        if s.startswith("✨ Done!"):
            self.banners.append("done")
            return
        if s.startswith("🔴 Task failed."):
            self.banners.append("failed")
            return
        if s.startswith("🔸 Task aborted."):
            self.banners.append("aborted")
            return
        if s.startswith("Failed task(s):"):
            self.report_section = "failed"
            return
        if s.startswith("Skipped task(s)"):
            self.report_section = "skipped"
            return
        if self.report_section and re.match(r"^  //\S*:\S+$", line):
            (self.failed_list if self.report_section == "failed" else self.skipped_list).append(s)

    # ---- environment moves
    def running(self):
        return sorted(p for p, s in self.proc.items() if s == "running")

    def do_exit(self, pid, status=None):
        t = self.task_of[pid]
        if status is None:
            c = self.codes.get(t, 0)
            if isinstance(c, dict):
                status = int(c["signal"])  # killed by signal: low 7 bits
                desc = {"sig": int(c["signal"])}
            else:
                status = (int(c) & 0xFF) << 8
                desc = {"code": int(c) & 0xFF}
        else:
            desc = {"sig": status & 0x7F} if status & 0x7F else {"code": status >> 8}
        self.proc[pid] = "zombie"
        self.status[pid] = status
        self._raise_sigchld()
        self.ev(e="Exit", pid=pid, t=t, **desc)

    def _raise_sigchld(self):
        self.pending = True
        if self.wakeup_fd >= 0 and callable(self.handlers.get(signal.SIGCHLD)):
            try:
                os.write(self.wakeup_fd, bytes([int(signal.SIGCHLD)]))     # what CPython's C-level handler does
            except (BlockingIOError, OSError):
                pass

    def stopped(self):
        return sorted(p for p, s in self.proc.items() if s == "stopped")

    def do_stop(self, pid):
        self.proc[pid] = "stopped"
        self.stop_unreported.add(pid)
        self.was_stopped.add(pid)
        self.stops_done += 1
        self._raise_sigchld()
        self.ev(e="Stop", pid=pid, t=self.task_of[pid])

    def do_cont(self, pid):
        self.proc[pid] = "running"
        self.stop_unreported.discard(pid)
        self._raise_sigchld()
        self.ev(e="Cont", pid=pid, t=self.task_of[pid])

    def deliver(self):
        self.pending = False
        self.late = False
        h = self.handlers.get(signal.SIGCHLD)
        if callable(h):
            self.in_handler += 1
            try:
                self.ev(e="Handler")
                h(signal.SIGCHLD, None)
            finally:
                self.in_handler -= 1

    def point(self, label, force_deliver=False):
        """A choice point for the environment (called before interposed calls)."""
        if self.in_handler:
            return
        self.points += 1
        for _ in range(6):
            if self.env_actions >= self.max_env_actions:
                break
            opts = ["none"] + [("exit", p) for p in self.running()] + (["deliver"] if self.pending else [])
            if self.allow_stop:
                if self.stops_done < 2:
                    opts += [("stop", p) for p in self.running() if p not in self.was_stopped]
                opts += [("cont", p) for p in self.stopped()]
            if len(opts) == 1:
                break
            i = self.chooser.env_action(opts, label)
            if i == 0:
                break
            self.env_actions += 1
            o = opts[i]
            if o == "deliver":
                self.deliver()
            elif o[0] == "stop":
                self.do_stop(o[1])
            elif o[0] == "cont":
                self.do_cont(o[1])
            else:
                self.do_exit(o[1])
        if force_deliver and self.pending:
            self.deliver()

    def progress(self):
        """Main thread would block: the environment must move. False if nothing can ever happen."""
        if self.pending and not self.late:
            self.deliver()
            return True
        run = self.running()
        if run:
            i = self.chooser.pick(len(run), "block_exit") if len(run) > 1 else 0
            self.do_exit(run[i])
            if self.late:
                # a further signal interrupts the blocked read (EINTR): now the Python-level handler runs for all of them
                self.deliver()
            return True
        st = self.stopped()
        if st:
            # whoever stopped the task eventually continues it
            self.do_cont(st[0])
            return True
        return False

    # ---- interposed calls
    def fork_exec(self, args, executable_list, close_fds, pass_fds, cwd, env_list, *rest):
        argv = [os.fsdecode(a) for a in args]
        if os.path.basename(argv[0]) in REAL_PROGRAMS:
            pid = self._fork_exec(args, executable_list, close_fds, pass_fds, cwd, env_list, *rest)
            self.real.add(pid)
            return pid
        env = {}
        if env_list is None:
            # Popen(env=None): the child inherits the parent's environment as it is at this very moment
            env = dict(os.environ)
        for e in env_list or []:
            k, _, v = os.fsdecode(e).partition("=")
            env[k] = v
        cwd_s = os.fsdecode(cwd) if cwd is not None else os.getcwd()
        name = env.get("COND_NAME", "")
        rel = os.path.relpath(cwd_s, self.root)
        rel = "" if rel == "." else rel
        ident = "//%s:%s" % (rel, name)
        self.point("pre_fork")
        if ident in self.fail_launch:
            self.ev(e="SpawnFail", t=ident)
            raise OSError(errno.EAGAIN, "Resource temporarily unavailable")
        pid = None
        if self.sched.get("reuse_pids"):
            # process ids are recycled: a new child may get the id of ANY process that has been reaped - an earlier task's or
            # the one of a child Conductor did not start
            # ... but never at once: the id space has to wrap around first. A reaped id becomes available again only after two
            # further task completions have been REPORTED by Conductor since it was reaped (a stand-in for "much later")
            # Assumption (the one every reaper of this kind rests on): the id of a TASK's process is not handed out again before
            # Conductor has consumed that task's exit status (reported its completion).
            free = sorted(p for p, s_ in self.proc.items() if s_ == "reaped" and self.reports - self.reaped_at.get(p, 0) >= 2
                          and (self.task_of.get(p) == "//:__unrelated__" or self.task_of.get(p) in self.reported_tasks))
            pick = self.chooser.env_action(["none"] + [("reuse", p) for p in free], "pid_reuse") if free else 0
            if pick:
                pid = free[pick - 1]
                self.status.pop(pid, None)
                self.stop_unreported.discard(pid)
                self.was_stopped.discard(pid)
        if pid is None:
            pid = self.next_pid
            self.next_pid += 1
        self.proc[pid] = "running"
        self.task_of[pid] = ident
        out = env.get("COND_OUT")
        listing = None
        if out and os.path.isdir(out):
            listing = sorted(os.listdir(out))
        start_new_session = rest[9] if len(rest) > 9 else None
        self.spawn_count += 1
        self.acts_since_spawn = 0
        self.ev(e="Spawn", t=ident, pid=pid, argv=argv, cwd=cwd_s, sess=bool(start_new_session),
                env={k: env.get(k) for k in ("COND_NAME", "COND_OUT", "COND_DEPS", "COND_SLOT")},
                out_listing=listing)
        self.point("post_fork")
        if self.abort_after_fork_of is not None and self.spawn_count == self.abort_after_fork_of:
            self.inject_abort("after_fork_exec", 0, "fork_exec")
        return pid

    def waitpid(self, pid, flags):
        if pid in self.real:
            return self._waitpid(pid, flags)
        if not self.in_handler:
            self.acts_since_spawn += 1
        if pid == -1:
            self.point("waitpid_any")
            while True:
                z = sorted(p for p, s in self.proc.items() if s == "zombie")
                if z:
                    p = z[0]
                    self.proc[p] = "reaped"
                    self.reaped_at[p] = self.reports
                    self.ev(e="Reap", pid=p, t=self.task_of[p], by="handler" if self.in_handler else "any")
                    return p, self.status[p]
                if (flags & os.WUNTRACED) and self.stop_unreported:
                    p = min(self.stop_unreported)
                    self.stop_unreported.discard(p)
                    return p, (int(signal.SIGSTOP) << 8) | 0x7F
                if self.running() or self.stopped():
                    if flags & os.WNOHANG:
                        return 0, 0
                    if not self.progress():
                        self.ev(e="Hang")
                        raise HangDetected()
                    continue
                raise ChildProcessError(errno.ECHILD, "No child processes")
        self.point("waitpid_pid", force_deliver=not self.allow_steal)
        while True:
            s = self.proc.get(pid)
            if s == "zombie":
                self.proc[pid] = "reaped"
                self.reaped_at[pid] = self.reports
                self.ev(e="Reap", pid=pid, t=self.task_of[pid], by="poll")
                return pid, self.status[pid]
            if s == "stopped" and (flags & os.WUNTRACED) and pid in self.stop_unreported:
                self.stop_unreported.discard(pid)
                return pid, (int(signal.SIGSTOP) << 8) | 0x7F
            if s in ("running", "stopped"):
                if flags & os.WNOHANG:
                    return 0, 0
                if not self.progress():
                    self.ev(e="Hang")
                    raise HangDetected()
                continue
            raise ChildProcessError(errno.ECHILD, "No child processes")

    def getpgid(self, pid):
        if pid in self.proc:
            if self.proc[pid] in ("running", "zombie", "stopped"):
                return pid
            raise ProcessLookupError(errno.ESRCH, "No such process")
        return self._getpgid(pid)

    def killpg(self, pgid, sig, grp=True):
        if pgid not in self.proc:
            self.ev(e="Kill", pgid=pgid, sig=int(sig), foreign=True)
            return None
        st = self.proc[pgid]
        self.ev(e="Kill", pgid=pgid, t=self.task_of[pgid], sig=int(sig), state=st, grp=grp)
        if st == "reaped":
            raise ProcessLookupError(errno.ESRCH, "No such process")
        if st == "running" and self.term_kills:
            self.do_exit(pgid, status=int(sig))
        return None

    def kill(self, pid, sig):
        if pid in self.proc:
            # a signal to the leading process ALONE (not to its group): recorded as such
            return self.killpg(pid, sig, grp=False)
        return self._kill(pid, sig)

    def signal_(self, signum, handler):
        old = self.handlers.get(signum, signal.SIG_DFL)
        self.handlers[signum] = handler
        return old

    def set_wakeup_fd(self, fd, *, warn_on_full_buffer=True):
        old, self.wakeup_fd = self.wakeup_fd, fd
        return old

    def getsignal(self, signum):
        return self.handlers.get(signum, signal.SIG_DFL)

    def pipe(self):
        r, w = self._pipe()
        self.pipes[r] = w
        self.wends[w] = r
        return r, w

    def close(self, fd):
        if fd in self.pipes:
            del self.pipes[fd]
        elif fd in self.wends:
            r = self.wends.pop(fd)
            self.pipes.pop(r, None)
        return self._close(fd)

    def read(self, fd, n):
        if fd in self.pipes and threading.current_thread() is threading.main_thread() and not self.in_handler:
            self.acts_since_spawn += 1
            # a pipe whose write end is still open in this very process: only a signal handler can feed it
            self.point("pre_read")
            if self.allow_late and not self.pending and not select.select([fd], [], [], 0)[0]:
                run = self.running()
                if run and self.chooser.env_action(["none", "late"], "late_signal") == 1:
                    # the child exits and the C-level handler runs AFTER the main thread's last signal check and BEFORE
                    # its read() blocks: no EINTR, the Python-level handler stays pending
                    self.do_exit(run[self.chooser.pick(len(run), "late_exit") if len(run) > 1 else 0])
                    self.late = True
                    self.ev(e="LateSignal")
            while not select.select([fd], [], [], 0)[0]:
                if not self.progress():
                    self.ev(e="Hang")
                    raise HangDetected()
            data = self._read(fd, n)
            # back in the interpreter loop: pending Python-level handlers run before the next byte-code
            self.point("post_read", force_deliver=True)
            return data
        return self._read(fd, n)

    # ---- abort injection (sys.settrace)
    def inject_abort(self, file, line, func):
        h = self.handlers.get(getattr(signal, self.abort_sig))
        if not callable(h):
            # Conductor has not installed its handlers yet (interpreter start-up / argument parsing): the moment is
            # outside what the property speaks about; the injection moves to the next line.
            if self.abort_at is not None:
                self.abort_at += 1
            return
        self.aborted = True
        live = sorted(p for p, s in self.proc.items() if s in ("running", "zombie", "stopped"))
        # acts: what Conductor's main flow has visibly done (printed a line, read the SIGCHLD pipe, called waitpid) since the
        # most recent spawn - 0 means the signal arrived before the scheduler did anything with the new child
        self.ev(e="Abort", file=file, line=line, func=func, live=live, in_del=bool(self.in_del), acts=self.acts_since_spawn,
                live_tasks=[self.task_of[p] for p in live])
        h = self.handlers.get(getattr(signal, self.abort_sig))
        if callable(h):
            h(getattr(signal, self.abort_sig), None)

    def tracer(self, frame, event, arg):
        name = frame.f_globals.get("__name__", "")
        if not name.startswith("conductor"):
            return None
        if event == "line":
            self.lines += 1
            if self.line_log is not None:
                self.line_log.append((os.path.basename(frame.f_code.co_filename), frame.f_lineno, frame.f_code.co_name))
            if self.sigchld_at is not None and self.lines == self.sigchld_at and not self.in_handler:
                import linecache
                if linecache.getline(frame.f_code.co_filename, frame.f_lineno).lstrip().startswith("except "):
                    self.sigchld_at += 1
                else:
                    self.sigchld_at = None
                    run = self.running()
                    if run:
                        self.do_exit(max(run))
                        self.ev(e="LineSignal", file=os.path.basename(frame.f_code.co_filename), line=frame.f_lineno)
                    if self.pending and callable(self.handlers.get(signal.SIGCHLD)):
                        self.deliver()
            if self.abort_at is not None and self.lines == self.abort_at and not self.aborted:
                import linecache
                if linecache.getline(frame.f_code.co_filename, frame.f_lineno).lstrip().startswith("except "):
                    # an `except <Name>:` header only executes exception-matching instructions; CPython runs Python-level
                    # signal handlers at eval-breaker checks (function entry, calls, backward jumps) and there is none on
                    # such a line: the handler runs at the next line instead
                    self.abort_at += 1
                    return self.tracer
                f = frame
                indel = False
                while f is not None:
                    if f.f_code.co_name == "__del__":
                        indel = True
                    f = f.f_back
                self.in_del = 1 if indel else 0
                self.inject_abort(os.path.basename(frame.f_code.co_filename), frame.f_lineno, frame.f_code.co_name)
        return self.tracer

    # ---- install
    def install(self):
        self._fork_exec = subprocess._fork_exec
        self._waitpid = os.waitpid
        self._getpgid = os.getpgid
        self._kill = os.kill
        self._pipe, self._close, self._read = os.pipe, os.close, os.read
        subprocess._fork_exec = self.fork_exec
        subprocess._waitpid = self.waitpid
        d = list(subprocess.Popen._internal_poll.__defaults__)
        for i, v in enumerate(d):
            if v is self._waitpid:
                d[i] = self.waitpid
        subprocess.Popen._internal_poll.__defaults__ = tuple(d)
        os.waitpid = self.waitpid
        os.getpgid = self.getpgid
        os.killpg = self.killpg
        os.kill = self.kill
        os.pipe, os.close, os.read = self.pipe, self.close, self.read
        signal.signal = self.signal_
        signal.getsignal = self.getsignal
        signal.set_wakeup_fd = self.set_wakeup_fd


def run_cond(scn, root, chooser=None):
    """Execute scn['argv'] (e.g. ["run","//:a","-j","2"]) in-process in project `root`. Returns trace dict."""
    warnings.simplefilter("ignore")
    import conductor.__main__ as cm  # noqa

    sched = scn.get("sched", {})
    if chooser is None:
        if sched.get("mode") == "script":
            chooser = ScriptChooser(sched.get("choices", []))
        else:
            chooser = RandomChooser(sched.get("seed", 0), sched.get("p_exit", 0.25), sched.get("p_deliver", 0.5))
    fk = FakeKernel(scn, chooser)
    fk.root = os.path.realpath(root)
    if scn.get("log_lines"):
        fk.line_log = []
    clock = scn.get("clock")
    if clock is not None:
        base = float(clock)
        time.time = lambda: base
    os.chdir(os.path.join(root, scn.get("cwd", "")))
    # nested use: `cond` started from inside a task of an outer `cond run -j N` inherits that task's COND_* variables
    os.environ.update(scn.get("ambient") or {})
    if scn.get("affinity") == "high":
        # started under a restricted CPU affinity mask (taskset, a cpuset cgroup, a SLURM allocation) that is NOT cores 0..J-1:
        # confine this process (a forked child of the harness) to the highest usable cores, one more than -j asks for
        try:
            usable = sorted(os.sched_getaffinity(0))
            want = int(scn.get("affinity_n", 3))
            if len(usable) > want and usable[-want] > want:
                os.sched_setaffinity(0, set(usable[-want:]))
        except (AttributeError, OSError):
            pass
    sys.argv = ["cond"] + list(scn["argv"])
    out, err = _TextRec(fk, "stdout"), _TextRec(fk, "stderr")
    so, se = sys.stdout, sys.stderr
    status, exc = 0, None
    fk.install()
    sys.stdout, sys.stderr = out, err
    try:
        if fk.abort_at is not None or fk.sigchld_at is not None or fk.line_log is not None or scn.get("count_lines"):
            sys.settrace(fk.tracer)
        try:
            cm.main()
        finally:
            sys.settrace(None)
    except SystemExit as e:
        status = e.code if isinstance(e.code, int) else (0 if e.code is None else 1)
    except HangDetected:
        status = "HANG"
    except BaseException as e:  # noqa
        status = "EXC"
        exc = "%s: %s" % (type(e).__name__, e)
    finally:
        sys.stdout, sys.stderr = so, se
    errtxt = ANSI.sub("", err.getvalue())
    # "Exception ignored in: <finalizer>" reports (printed by CPython, non fatal) are not internal errors
    fatal_txt = re.sub(r"Exception ignored in:.*?\n(?:Traceback \(most recent call last\):\n(?:[ \t]+.*\n)*)?[A-Za-z_.]+(?:Error|Exception|Abort)[^\n]*\n?",
                       "", errtxt, flags=re.S)
    if "Traceback (most recent call last)" in fatal_txt or status == "EXC":
        kind = "Traceback"
    elif "ERROR:" in errtxt:
        kind = "ERROR"
    else:
        kind = "none"
    live = sorted(p for p, s in fk.proc.items() if s in ("running", "zombie", "stopped"))
    # "reporting that it was aborted": the message of the subject's OWN abort error (whatever its wording) is on stderr
    try:
        from conductor.errors import ConductorAbort
        abort_msg = ANSI.sub("", ConductorAbort().printable_message()).strip()
    except Exception:  # noqa: BLE001
        abort_msg = "has been aborted"
    if abort_msg and abort_msg in errtxt:
        fk.banners.append("abort-reported")
    fk.ev(e="Return", exit=status, exc=exc, stderr_kind=kind, failed=fk.failed_list, skipped=fk.skipped_list,
          banners=fk.banners, live=live, unreaped_tasks=[fk.task_of[p] for p in live])
    return {
        "events": fk.events,
        "status": status,
        "exc": exc,
        "stderr": errtxt[-1500:],
        "stdout_tail": ANSI.sub("", out.getvalue())[-600:],
        "lines": fk.lines, "writes": fk.writes,
        "line_log": fk.line_log,
        "points": fk.points,
        "trail": getattr(chooser, "trail", None),
        "index": P.read_index(root),
    }


def run_scenario(scn):
    """Build the project in scratch, run, clean up. To be called inside a forked child."""
    import shutil
    import tempfile
    from .common import scratch_root

    d = tempfile.mkdtemp(prefix="cvfk_", dir=scratch_root())
    try:
        root = os.path.join(d, "p")
        P.write_project(root, scn["project"])
        return run_cond(scn, root)
    finally:
        shutil.rmtree(d, ignore_errors=True)
