SPECIFICATION HSpec
CHECK_DEADLOCK FALSE
