SPECIFICATION Spec
INVARIANT RefusedKeepsVersions
INVARIANT ArchiveReadOnly
INVARIANT ArchiveIff
INVARIANT CleanIff
INVARIANT NoProjectNoTrace
PROPERTY Terminates
CHECK_DEADLOCK TRUE
