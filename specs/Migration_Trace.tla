--------------------------- MODULE Migration_Trace ---------------------------
(***************************************************************************)
(* Observed invocation sequences of the real VersionIndex.create_or_load   *)
(* on a v1 index (the first invocation killed before its k-th effectful    *)
(* call, then started again without a kill) must be behaviours of          *)
(* Migration.tla: the state of the index file and of the backup after each *)
(* invocation (observed from outside: user_version, tables and whether     *)
(* each holds the original rows, backup absent / byte-identical / other)   *)
(* has to match the model's durable image at an invocation boundary; where *)
(* the kill fell is not logged - TLC searches for it.                      *)
(* Trace (ndjson): [id, obs: <<[outcome, fmt, old, new, cur, backup]>>]    *)
(* with old/new/cur in "absent" | "orig" | "empty" | "other".              *)
(***************************************************************************)
EXTENDS Migration, Json, IOUtils, TLCExt, Sequences

Traces == ndJsonDeserialize(IOEnv.TRACE_FILE)
VARIABLES tid, l
tvars == <<vars, tid, l>>
T == Traces[tid]
Ev == T.obs[l]

Cls(db, t) == IF ~Has(db, t) THEN "absent" ELSE IF db.tabs[t] = Orig THEN "orig" ELSE IF db.tabs[t] = {} THEN "empty" ELSE "other"
Match(e, db, b, o) == /\ e.outcome = o /\ e.fmt = db.fmt /\ e.backup = b
                      /\ e.old = Cls(db, "old") /\ e.new = Cls(db, "new") /\ e.cur = Cls(db, "cur")

TInit == tid \in 1..Len(Traces) /\ l = 1 /\ Init /\ TLCSet(tid, 1)
Consume == l' = l + 1 /\ TLCSet(tid, IF l + 1 > TLCGet(tid) THEN l + 1 ELSE TLCGet(tid))
Has1 == l <= Len(T.obs)

TKilled == Has1 /\ Crash /\ Match(Ev, D', backup', "killed") /\ Consume
TFinish == Has1 /\ Step /\ pc # "done" /\ pc' = "done" /\ Match(Ev, D', backup', outcome') /\ Consume
TSilent == Step /\ pc' # "done" /\ UNCHANGED l
TAgain  == Again /\ UNCHANGED l
TNext == (TKilled \/ TFinish \/ TSilent \/ TAgain) /\ UNCHANGED tid
TSpec == TInit /\ [][TNext]_tvars

Verdicts == \A i \in 1..Len(Traces) : PrintT(ToJson([id |-> Traces[i].id, reached |-> TLCGet(i) - 1, n |-> Len(Traces[i].obs)]))
=============================================================================
