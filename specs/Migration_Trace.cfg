CONSTANT NRows = 1
CONSTANT MaxCrashes = 4
CONSTANT CheckTmpTable = FALSE
CONSTANT AtomicBackup = FALSE
SPECIFICATION TSpec
POSTCONDITION Verdicts
CHECK_DEADLOCK FALSE
