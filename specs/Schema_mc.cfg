SPECIFICATION Spec
INVARIANT ExpansionShape
CHECK_DEADLOCK FALSE
