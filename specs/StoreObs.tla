------------------------------ MODULE StoreObs ------------------------------
(***************************************************************************)
(* The OBSERVABLE contract of the version store (cond-out): what every     *)
(* command may do to the recorded versions and their directories.          *)
(* Written as a monitor over (before, command, after) triples of ABSTRACT  *)
(* store states; used                                                      *)
(*   - by StoreObs_Trace.tla to judge projections of the real cond-out     *)
(*     taken around every real command (including after a kill at any      *)
(*     effectful system call), and                                         *)
(*   - by Store.tla (implementation-shaped, with Crash at every step),     *)
(*     whose every reachable step is checked against the same clauses.     *)
(*                                                                         *)
(* Abstract store state S:                                                 *)
(*   rows   set of <<id, ts, commit, dirty>>   the version index           *)
(*   vdirs  set of <<id, ts, digest, complete>> version directories found  *)
(*          at task positions (id = identifier derived from the location)  *)
(*   tdirs  set of <<id, digest>>              un-versioned task dirs      *)
(*   misc   digest of everything else in cond-out (stray files, ...)       *)
(*   outside digest of a sentinel tree outside cond-out                    *)
(* identifiers, commits and digests are interned to small numbers by the   *)
(* harness; 0 = NULL commit.                                               *)
(***************************************************************************)
EXTENDS Naturals, Integers, Sequences, FiniteSets, TLC

SetOf(s) == {s[i] : i \in 1..Len(s)}
St(s) == [rows |-> SetOf(s.rows), vdirs |-> SetOf(s.vdirs), tdirs |-> SetOf(s.tdirs),
          misc |-> s.misc, outside |-> s.outside]

Key(x) == <<x[1], x[2]>>
RowKeys(S) == {Key(r) : r \in S.rows}
DirKeys(S) == {Key(v) : v \in S.vdirs}
MaxTs(S) == IF S.rows = {} THEN 0 ELSE CHOOSE m \in {r[2] : r \in S.rows} : \A r \in S.rows : r[2] <= m
Recorded(S) == {v \in S.vdirs : Key(v) \in RowKeys(S)}
Garbage(S) == {v \in S.vdirs : Key(v) \notin RowKeys(S)}

V(cond, name) == IF cond THEN {} ELSE {name}

(***************************************************************************)
(* State invariants (C06): hold in EVERY observed state, crashed or not    *)
(***************************************************************************)
IndexImpliesData(S) ==
    \A r \in S.rows : \E v \in S.vdirs : Key(v) = Key(r) /\ v[4] = 1
StateClauses(S) == V(IndexImpliesData(S), "IndexImpliesData")

(***************************************************************************)
(* Every command except clean (C08): recorded versions are immutable       *)
(***************************************************************************)
RecordedImmutable(B, A) == \A v \in Recorded(B) : v \in A.vdirs
RowsKept(B, A) == B.rows \subseteq A.rows
OutsideUntouched(B, A) == A.outside = B.outside

(***************************************************************************)
(* run (C06 C08): spawns = set of <<id, ts, preexisted, emptyAtStart, exitcode>> *)
(***************************************************************************)
RunClauses(B, A, spawns, head, dirty, crashed) ==
    LET sp == spawns
        ok == {s \in sp : s[5] = 0}
    IN  V(\A s \in sp : s[2] > MaxTs(B), "IdAboveRecorded")
   \cup V(\A s \in sp : Key(s) \notin DirKeys(B) /\ s[3] = 0, "DirFresh")
   \cup V(\A s \in sp : s[4] = 1, "DirEmptyAtStart")
   \cup V(\A s, t \in sp : s # t => s[2] # t[2], "IdUnique")
   \cup V(RecordedImmutable(B, A) /\ RowsKept(B, A), "RecordedImmutable")
   (* a 6th field (conformance side only): the directory of this version changed after its row had appeared in the index *)
   \cup V(\A s \in sp : Len(s) < 6 \/ s[6] = 0, "NoWriteAfterRecord")
   \cup V(\A r \in A.rows \ B.rows : \E s \in ok : Key(s) = Key(r), "RowsOnlyForExit0")
   \cup V(crashed \/ \A s \in ok : Key(s) \in RowKeys(A), "SuccessRecorded")
   \cup V(\A r \in A.rows \ B.rows : r[3] = head /\ r[4] = dirty, "RowCarriesHeadAndDirty")
   \cup V(OutsideUntouched(B, A), "OutsideUntouched")

(***************************************************************************)
(* gc (C13)                                                                *)
(***************************************************************************)
GcClauses(B, A, exit, crashed) ==
        V(A.rows = B.rows, "GcKeepsIndex")
   \cup V(Recorded(B) \subseteq A.vdirs, "GcKeepsRecorded")
   \cup V(A.vdirs \subseteq B.vdirs, "GcCreatesNothing")
   \cup V(crashed \/ exit # 0 \/ A.vdirs = Recorded(B), "GcRemovesAllGarbage")
   \cup V(A.tdirs = B.tdirs /\ A.misc = B.misc, "GcTouchesNothingElse")
   \cup V(OutsideUntouched(B, A), "OutsideUntouched")

GcDryClauses(B, A, exit, listed) ==
        V(A = B, "DryRunDeletesNothing")
   \cup V(exit # 0 \/ listed = {Key(v) : v \in Garbage(B)}, "DryRunListsExactlyGarbage")

(***************************************************************************)
(* archive (C11): sel = [all |-> BOOLEAN, ids |-> seq, latest |-> BOOLEAN];*)
(* members = seq of <<id, ts>> found in the tar file, arows = rows of the  *)
(* archive's own index                                                     *)
(***************************************************************************)
(* archivable tasks (experiments) in the transitive closure of the named task, from the task graph G *)
RECURSIVE Reach(_, _, _)
Reach(G, todo, seen) ==
    IF todo = {} THEN seen
    ELSE LET t == CHOOSE x \in todo : TRUE
             ds == {G.deps[t][i] : i \in 1..Len(G.deps[t])} \ {0}
         IN Reach(G, (todo \cup ds) \ (seen \cup {t}), seen \cup {t})
ClosureIds(G, t) == {G.ident[x] : x \in {y \in Reach(G, {t}, {}) : G.kind[y] = "exp"}}

Selected(S, sel) ==
    LET base == IF sel.all THEN S.rows ELSE {r \in S.rows : r[1] \in sel.idset}
    IN IF sel.latest THEN {r \in base : \A q \in base : q[1] = r[1] => q[2] <= r[2]} ELSE base

ArchiveClauses(B, A, exit, sel, arows, members) ==
        V(A = B, "ArchiveReadOnly")
   \cup V(exit # 0 \/ arows = Selected(B, sel), "ArchiveSelectsExactly")
   \cup V(exit # 0 \/ members = {Key(r) : r \in Selected(B, sel)}, "ArchiveMembersExact")
   (* an archive may fail when the output directory of a selected version is gone (removed by hand); it must then leave *)
   (* the project as it is (ArchiveReadOnly), and it may not "succeed" by quietly selecting something else             *)
   \cup V(exit = 0 \/ Selected(B, sel) = {} \/ sel.expectFail
          \/ (\E r \in Selected(B, sel) : ~\E v \in B.vdirs : Key(v) = Key(r)), "ArchiveSucceeds")

(***************************************************************************)
(* restore (C11 C12): arch = [rows, members (seq of <<id,ts,digest>>), defect] *)
(***************************************************************************)
RestoreClauses(B, A, exit, crashed, arch) ==
    LET ar == arch.rows
        am == arch.members
        ok == exit = 0 /\ ~crashed
        cannot == arch.defect # "none" \/ (RowKeys(B) \cap {Key(r) : r \in ar} # {})
                  \/ (DirKeys(B) \cap {Key(r) : r \in ar} # {})
        (* killed after the commit point: all-or-nothing still holds when everything is there *)
        allThere == A.rows = B.rows \cup ar /\ \A r \in ar : \E v \in A.vdirs : Key(v) = Key(r)
    IN  V(ok \/ A.rows = B.rows \/ (crashed /\ allThere), "FailedRestoreKeepsIndex")
   \cup V(RecordedImmutable(B, A), "RecordedImmutable")
   \cup V(~ok \/ (ar \subseteq A.rows /\ \A r \in ar : \E v \in A.vdirs : Key(v) = Key(r)), "SuccessMeansAll")
   \cup V(~ok \/ A.rows = B.rows \cup ar, "RestoreAddsExactlyArchive")
   \cup V(~ok \/ \A r \in ar : \E mm \in am : \E v \in A.vdirs :
                      Key(mm) = Key(r) /\ Key(v) = Key(r) /\ v[3] = mm[3], "RestoredTreesIdentical")
   \cup V(~cannot \/ ~ok, "CannotCompleteMeansUnchanged")
   \cup V(cannot \/ crashed \/ ok, "ValidRestoreSucceeds")
   \cup V(A.tdirs = B.tdirs, "RestoreTouchesNothingElse")
   \cup V(OutsideUntouched(B, A), "OutsideUntouched")

(* round trip (C11): source state So, archive with selection sel, restore into an empty project -> R *)
RoundTripClauses(So, R, sel) ==
        V(R.rows = Selected(So, sel), "RoundTripRows")
   \cup V({<<v[1], v[2], v[3]>> : v \in R.vdirs} =
          {<<v[1], v[2], v[3]>> : v \in {w \in So.vdirs : Key(w) \in {Key(r) : r \in Selected(So, sel)}}},
          "RoundTripTrees")

(***************************************************************************)
(* any command from two working directories under the same root (C17):     *)
(* R = observation from the project root, X = from another directory;      *)
(* locs = reported locations resolved against the respective cwd           *)
(***************************************************************************)
CwdClauses(R, X) ==
        V(X.exit = R.exit, "CwdSameExit")
   \cup V(X.after = R.after, "CwdSameEffects")
   \cup V(X.locs = R.locs, "CwdSameLocations")
(* from a directory of a NESTED project (own cond_config.toml) the outer project is not touched *)
NestedClauses(B, A) == V(A = B, "NearestRootWins")

(***************************************************************************)
(* combine (C18): links = set of <<name, resolved target, isLink>> found in the combine task's output directory;  *)
(* deps = set of <<name, directory, nonEmpty>>: the directories a sibling task with the same dependency list was   *)
(* given in COND_DEPS in the same invocation                                                                     *)
(***************************************************************************)
CombineClauses(exit, links, deps, conflict, entryUnchanged) ==
        V(conflict \/ exit # 0 \/ {<<l[1], l[2]>> : l \in links} = {<<d[1], d[2]>> : d \in {x \in deps : x[3] = 1}},
          "CombineLinksExact")
   \cup V(conflict \/ exit # 0 \/ \A l \in links : l[3] = 1, "CombineEntriesAreLinks")
   \cup V(~conflict \/ (exit # 0 /\ entryUnchanged), "CombineConflictReported")

(***************************************************************************)
(* clean, where                                                            *)
(***************************************************************************)
CleanClauses(B, A) == V(OutsideUntouched(B, A), "OutsideUntouched")
WhereClauses(B, A) == V(A = B, "WhereReadOnly")
=============================================================================
