---------------------------- MODULE RelevanceCore ----------------------------
(***************************************************************************)
(* Which recorded version of a run_experiment task is "most relevant"      *)
(* (task_types/run.py: _retrieve_most_relevant_existing_version), when the *)
(* task must run (should_run with --at-least / --again), and which flag    *)
(* combinations are rejected (cli/run.py: validate_args, main).            *)
(*                                                                         *)
(* A universe U = [nc, parents, head, mode]: commits 1..nc, parents[c] a   *)
(* set of smaller commits (<= 2), HEAD, mode in                            *)
(*   "git" | "nogit" | "disabled" | "nocommit".                            *)
(* A version row = <<ts, commit>>, commit in 1..nc, 0 (NULL) or nc+1 (a    *)
(* hash unknown to the repository).                                        *)
(***************************************************************************)
EXTENDS Naturals, Integers, Sequences, FiniteSets, TLC

RECURSIVE Anc(_, _)
Anc(U, c) == {c} \cup UNION {Anc(U, p) : p \in U.parents[c]}          \* reflexive ancestors
IsAncestor(U, a, c) == a \in 1..U.nc /\ c \in 1..U.nc /\ a \in Anc(U, c)
Dist(U, c) == Cardinality(Anc(U, U.head) \ Anc(U, c))                 \* git rev-list --count HEAD ^c

Newest(rows) == IF rows = {} THEN <<0, 0>> ELSE CHOOSE r \in rows : \A q \in rows : q[1] <= r[1]
None == <<0, 0>>

(* ---- declarative: the documented rule ---- *)
MostRelevant(U, rows) ==
    IF U.mode # "git" THEN Newest(rows)
    ELSE LET anc == {r \in rows : IsAncestor(U, r[2], U.head)} IN
         IF anc # {}
         THEN CHOOSE r \in anc : \A q \in anc : Dist(U, r[2]) < Dist(U, q[2])
                                               \/ (Dist(U, r[2]) = Dist(U, q[2]) /\ q[1] <= r[1])
         ELSE IF rows # {} /\ \A r \in rows : r[2] = 0 THEN Newest(rows) ELSE None

(* flag = <<"default">> | <<"again">> | <<"atleast", C>> *)
MustRun(U, rows, flag) ==
    LET sel == MostRelevant(U, rows) IN
    CASE flag[1] = "again" -> TRUE
      [] flag[1] = "default" -> sel = None
      [] flag[1] = "atleast" -> sel = None \/ sel[2] = 0 \/ (sel[2] # flag[2] /\ IsAncestor(U, sel[2], flag[2]))

(* command-line validation: "ok" or the reason of rejection *)
ArgsVerdict(U, again, atleast, thiscommit, cValid, c) ==
    IF thiscommit /\ atleast THEN "both"
    ELSE IF again /\ (thiscommit \/ atleast) THEN "again+commit"
    ELSE IF (thiscommit \/ atleast) /\ U.mode # "git" THEN "unsupported"
    ELSE IF atleast /\ ~cValid THEN "badsymbol"
    ELSE IF atleast /\ ~IsAncestor(U, c, U.head) THEN "notancestor"
    ELSE "ok"

(* ---- algorithmic: the two loops of the code over rows in timestamp order ---- *)
RECURSIVE SortedRows(_)
SortedRows(rows) == IF rows = {} THEN <<>>
                    ELSE LET m == CHOOSE r \in rows : \A q \in rows : r[1] <= q[1] IN <<m>> \o SortedRows(rows \ {m})
RECURSIVE Pick(_, _, _, _, _)
Pick(U, s, i, sel, best) ==
    IF i > Len(s) THEN sel
    ELSE LET v == s[i]  d == Dist(U, v[2]) IN
         IF sel = None \/ d < best THEN Pick(U, s, i + 1, v, d)
         ELSE IF d = best /\ v[1] > sel[1] THEN Pick(U, s, i + 1, v, best)
         ELSE Pick(U, s, i + 1, sel, best)
AlgoMostRelevant(U, rows) ==
    IF U.mode # "git" THEN Newest(rows)
    ELSE LET s == SortedRows(rows)
             ancs == SelectSeq(s, LAMBDA v : v[2] # 0 /\ IsAncestor(U, v[2], U.head))
             nulls == SelectSeq(s, LAMBDA v : v[2] = 0)
         IN IF Len(ancs) > 0 THEN Pick(U, ancs, 1, None, 0)
            ELSE IF Len(nulls) = Len(s) /\ Len(nulls) > 0 THEN Newest(rows) ELSE None
AlgoShouldRun(U, rows, flag) ==
    LET sel == AlgoMostRelevant(U, rows) IN
    IF flag[1] = "again" THEN TRUE
    ELSE IF sel = None THEN TRUE
    ELSE IF flag[1] = "default" THEN FALSE
    ELSE IF sel[2] = 0 THEN TRUE
    ELSE IF sel[2] = flag[2] THEN FALSE
    ELSE IsAncestor(U, sel[2], flag[2])
=============================================================================
