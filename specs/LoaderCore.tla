----------------------------- MODULE LoaderCore -----------------------------
(***************************************************************************)
(* Dependency-graph validation (parsing/task_index.py).                    *)
(*                                                                         *)
(* Declarative half: which diagnostics are JUSTIFIED for `cond run T` on a *)
(* digraph of task definitions (cycle reachable from T / reachable edge to *)
(* an undefined task / a needed task listing a task twice), and for        *)
(* whole-project validation (reject iff a cycle or dangling edge exists    *)
(* anywhere, else roots = tasks nobody depends on).                        *)
(*                                                                         *)
(* Algorithmic half: load_transitive_closure and                           *)
(* validate_all_loaded_tasks exactly as written (iterative DFS with        *)
(* duplicate stack entries, visit counts, on-path set, re-load on a second *)
(* pop, root-candidate counting), as step functions.                       *)
(*                                                                         *)
(* TLC checks result \in Verdicts / roots = Roots for EVERY digraph over   *)
(* Defined tasks + one undefined task, every ordered dependency list       *)
(* (optionally with a repeated entry), every target.                       *)
(***************************************************************************)
EXTENDS Naturals, Sequences, FiniteSets, TLC, Json

CONSTANTS ND,        \* defined tasks are 1..ND; ND+1 is an undefined task
          MaxLen,    \* longest dependency list
          Dups       \* BOOLEAN: also lists that repeat one entry

U == ND + 1
Def == 1..ND
All == 1..U

RangeS(s) == {s[i] : i \in 1..Len(s)}
NoDup(s) == \A i, j \in 1..Len(s) : i # j => s[i] # s[j]
OneDup(s) == Cardinality(RangeS(s)) = Len(s) - 1
Lists == UNION {[1..k -> All] : k \in 0..MaxLen}
DepLists == {s \in Lists : NoDup(s) \/ (Dups /\ OneDup(s))}

(***************************************************************************)
(* Declarative                                                             *)
(***************************************************************************)
Succ(d, t) == IF t \in Def THEN RangeS(d[t]) ELSE {}
RECURSIVE ReachFrom(_, _, _)
ReachFrom(d, todo, seen) ==
    IF todo = {} THEN seen
    ELSE LET t == CHOOSE x \in todo : TRUE
         IN ReachFrom(d, (todo \cup Succ(d, t)) \ (seen \cup {t}), seen \cup {t})
Reach(d, t) == ReachFrom(d, {t}, {})                       \* includes t
OnCycle(d, v) == v \in UNION {Reach(d, w) : w \in Succ(d, v)}

Cyclic(d, T)   == \E v \in Reach(d, T) \cap Def : OnCycle(d, v)
Dangling(d, T) == U \in Reach(d, T)
HasDup(d, T)   == \E v \in Reach(d, T) \cap Def : ~NoDup(d[v])
Verdicts(d, T) ==
    LET s == (IF Cyclic(d, T) THEN {"cycle"} ELSE {}) \cup (IF Dangling(d, T) THEN {"notfound"} ELSE {})
             \cup (IF HasDup(d, T) THEN {"dup"} ELSE {})
    IN IF s = {} THEN {"ok"} ELSE s

ProjectBad(d) == (\E v \in Def : OnCycle(d, v)) \/ (\E v \in Def : U \in RangeS(d[v]))
Roots(d) == {t \in Def : \A v \in Def : t \notin RangeS(d[v])}

(***************************************************************************)
(* load_transitive_closure(T)                                              *)
(***************************************************************************)
LInit(T) == [stack |-> <<<<T, 0>>>>, visited |-> {}, path |-> {}, res |-> "run"]

LStep(d, s) ==
    IF s.stack = <<>> THEN [s EXCEPT !.res = "ok"]
    ELSE
    LET top == s.stack[Len(s.stack)]
        id == top[1]
        s0 == [s EXCEPT !.stack = SubSeq(@, 1, Len(@) - 1)]
    IN IF top[2] > 0 THEN [s0 EXCEPT !.path = @ \ {id}, !.visited = @ \cup {id}]
       ELSE IF id \in s.path THEN [s0 EXCEPT !.res = "cycle"]
       ELSE IF id = U THEN [s0 EXCEPT !.res = "notfound"]            \* load_single_task: TaskNotFound
       ELSE IF ~NoDup(d[id]) THEN [s0 EXCEPT !.res = "dup"]           \* _materialize_raw_task: DuplicateDependency
       ELSE LET pushed == [i \in 1..Len(d[id]) |-> <<d[id][i], 0>>]
                keep == SelectSeq(pushed, LAMBDA e : e[1] \notin s.visited)
            IN [s0 EXCEPT !.stack = Append(@, <<id, 1>>) \o keep, !.path = @ \cup {id}]

RECURSIVE LRun(_, _)
LRun(d, s) == IF s.res # "run" THEN s.res ELSE LRun(d, LStep(d, s))
LoadResult(d, T) == LRun(d, LInit(T))

(***************************************************************************)
(* validate_all_loaded_tasks(): all defined tasks are loaded, in order 1..ND *)
(***************************************************************************)
(* one traversal from `root`; state = [stack, path, visited, cand (task -> count), res] *)
VStep(d, root, s) ==
    IF s.stack = <<>> THEN [s EXCEPT !.res = "done"]
    ELSE
    LET top == s.stack[Len(s.stack)]
        id == top[1]
        s0 == [s EXCEPT !.stack = SubSeq(@, 1, Len(@) - 1)]
    IN IF top[2] > 0 THEN [s0 EXCEPT !.path = @ \ {id}]
       ELSE IF id \in s.path THEN [s0 EXCEPT !.res = "cycle"]
       ELSE IF id \in s.visited THEN s0
       ELSE IF id \notin Def THEN [s0 EXCEPT !.res = "notfound"]
       ELSE LET ds == d[id]
                cand2 == [t \in DOMAIN s.cand |->
                            s.cand[t] + Cardinality({i \in 1..Len(ds) : ds[i] = t})]
            IN [s0 EXCEPT !.visited = @ \cup {id}, !.path = @ \cup {id}, !.cand = cand2,
                          !.stack = Append(@, <<id, 1>>) \o [i \in 1..Len(ds) |-> <<ds[i], 0>>]]

RECURSIVE VTraverse(_, _, _)
VTraverse(d, root, s) == IF s.res # "run" THEN s ELSE VTraverse(d, root, VStep(d, root, s))

RECURSIVE VAll(_, _, _)
VAll(d, t, s) ==
    IF t > ND THEN [res |-> "ok", roots |-> {x \in DOMAIN s.cand : s.cand[x] = 0}]
    ELSE IF t \in s.visited THEN VAll(d, t + 1, s)
    ELSE LET c2 == [x \in DOMAIN s.cand \cup {t} |-> IF x = t THEN 0 ELSE s.cand[x]]
             r == VTraverse(d, t, [stack |-> <<<<t, 0>>>>, path |-> {}, visited |-> s.visited, cand |-> c2, res |-> "run"])
         IN IF r.res # "done" THEN [res |-> r.res, roots |-> {}]
            ELSE VAll(d, t + 1, [visited |-> r.visited, cand |-> r.cand])
ValidateResult(d) == VAll(d, 1, [visited |-> {}, cand |-> [x \in {} |-> 0]])

=============================================================================
