----------------------------- MODULE PlannerCore -----------------------------
(***************************************************************************)
(* Implementation-shaped model of ExecutionPlanner.create_plan_for         *)
(* (execution/planning/planner.py) together with the version memo of       *)
(* RunExperiment (task_types/run.py) and the version generator of          *)
(* VersionIndex (execution/version_index.py).                              *)
(*                                                                         *)
(* The planner is deterministic, so it is written as a step FUNCTION on a  *)
(* planner-state record (PStep) that is used                               *)
(*   - as a state machine here (PSpec), to check the properties of C01,    *)
(*     C02, C07 on every task graph with ordered dependency lists, and     *)
(*   - iterated to completion (PlanOf) by Executor.tla, whose initial      *)
(*     states are the plans of all those graphs.                           *)
(*                                                                         *)
(* One PStep = one iteration of the `while len(stack) > 0` loop.           *)
(***************************************************************************)
EXTENDS Naturals, Sequences, FiniteSets, TLC, SequencesExt, Json

CONSTANTS N,        \* number of tasks
          Kinds,    \* task kinds to enumerate
          Modes,    \* subset of {"default", "again", "atleast"}
          FixedD1   \* TRUE: planner after the duplicate-lowering repair (see known_findings.json)

(* A task graph G is a record                                              *)
(*   n        tasks are 1..n, the target is G.target                       *)
(*   deps     [1..n -> Seq(1..n)] as LISTED in the COND file, no repeats   *)
(*   kind     "exp" | "cmd" | "group" | "combine"                          *)
(*   par      parallelizable                                               *)
(*   cachedTs [1..n -> Nat] : 0 = no relevant recorded version, else the   *)
(*            version (timestamp) that `most relevant version` yields      *)
(*   stale    [1..n -> BOOLEAN] : with --at-least C, the relevant version  *)
(*            has no commit or is a strict ancestor of C (Relevance.tla)   *)
(*   again    --again                                                      *)
(*   now      the wall clock (seconds) during planning; lastTs0 the        *)
(*            largest recorded timestamp of the project                    *)

SeqsNoDup(S) ==
    UNION { {s \in [1..k -> S] : \A i, j \in 1..k : i # j => s[i] # s[j]} : k \in 0..Cardinality(S) }

(* All acyclic graphs on 1..n whose edges go from larger to smaller numbers, with every
   ordering of every dependency list. *)
OrderedDeps(n) ==
    {d \in [1..n -> UNION {SeqsNoDup(1..(t-1)) : t \in 1..n}] :
        \A t \in 1..n : \A i \in 1..Len(d[t]) : d[t][i] < t}

RangeS(s) == {s[i] : i \in 1..Len(s)}

(***************************************************************************)
(* Planner state                                                           *)
(***************************************************************************)
NewLT(t) == [task |-> t, second |-> FALSE, deps |-> <<>>, out |-> <<>>]

PInit(G) ==
    [ stack    |-> <<1>>,
      lts      |-> <<NewLT(G.target)>>,
      visited  |-> [t \in 1..G.n |-> 0],          \* task -> lowering-task index (0 = not visited)
      ops      |-> <<>>,                           \* [task, exe (set of op idx), deps (snapshot), ver]
      initial  |-> <<>>,                           \* op indices in creation order
      cached   |-> <<>>,                           \* tasks reported as cached, in order
      retrieved|-> [t \in 1..G.n |-> FALSE],       \* RunExperiment._did_retrieve_version
      sel      |-> [t \in 1..G.n |-> 0],           \* RunExperiment._most_relevant_version (0 = None)
      lastTs   |-> G.lastTs0,                      \* VersionIndex._last_timestamp
      numToRun |-> 0,
      done     |-> FALSE ]

(* RunExperiment._ensure_most_relevant_existing_version_computed *)
Ensure(G, s, t) ==
    IF s.retrieved[t] THEN s
    ELSE [s EXCEPT !.retrieved[t] = TRUE, !.sel[t] = G.cachedTs[t]]

(* TaskType.should_run / RunExperiment.should_run; returns <<answer, state'>> *)
ShouldRun(G, s, t) ==
    IF G.kind[t] # "exp" THEN <<TRUE, s>>
    ELSE LET s1 == Ensure(G, s, t) IN
         IF s1.sel[t] = 0 THEN <<TRUE, s1>>
         ELSE IF ~G.atLeast THEN <<FALSE, s1>>
         ELSE IF G.stale[t] /\ s1.sel[t] = G.cachedTs[t]
              THEN <<TRUE, [s1 EXCEPT !.retrieved[t] = FALSE]>>   \* forces recomputation later
              ELSE <<FALSE, s1>>

(* VersionIndex.generate_new_output_version *)
NewTs(G, s) == IF G.now = s.lastTs THEN G.now + 1 ELSE IF G.now < s.lastTs THEN s.lastTs + 1 ELSE G.now

(* TaskType.get_output_path as a pair <<task, version>>; version 0 = unversioned dir; <<0,0>> = None *)
OutOf(G, s, d) ==
    IF G.kind[d] = "group" THEN <<0, 0>>
    ELSE IF G.kind[d] = "exp"
         THEN LET s1 == Ensure(G, s, d) IN IF s1.sel[d] = 0 THEN <<0, 0>> ELSE <<d, s1.sel[d]>>
         ELSE <<d, 0>>

(* get_output_path may itself fill the memo of a dependency that was never visited *)
RECURSIVE EnsureAll(_, _, _, _)
EnsureAll(G, s, ds, i) ==
    IF i > Len(ds) THEN s
    ELSE EnsureAll(G, IF G.kind[ds[i]] = "exp" THEN Ensure(G, s, ds[i]) ELSE s, ds, i + 1)

DepSnapshot(G, s, t) ==
    SelectSeq([i \in 1..Len(G.deps[t]) |-> OutOf(G, s, G.deps[t][i])], LAMBDA p : p[1] # 0)

(* the `for dep_ident in reversed(lt.task.deps)` loop of the first visit *)
RECURSIVE PushDeps(_, _, _, _, _)
PushDeps(ds, i, s, k, acc) ==
    IF i = 0 THEN [s EXCEPT !.lts[k].deps = acc]
    ELSE LET d == ds[i] IN
         IF s.visited[d] # 0
         THEN PushDeps(ds, i - 1, s, k, Append(acc, s.visited[d]))
         ELSE LET L2 == Append(s.lts, NewLT(d))
                  s2 == [s EXCEPT !.lts = L2, !.stack = Append(@, Len(L2))]
              IN PushDeps(ds, i - 1, s2, k, Append(acc, Len(L2)))

PStep(G, s) ==
    IF s.stack = <<>> THEN [s EXCEPT !.done = TRUE]
    ELSE
    LET k  == s.stack[Len(s.stack)]
        lt == s.lts[k]
        t  == lt.task
        s0 == [s EXCEPT !.stack = SubSeq(@, 1, Len(@) - 1)]
    IN
    IF ~lt.second /\ FixedD1 /\ s.visited[t] # 0 THEN s0      \* already lowered through another parent
    ELSE IF ~lt.second THEN
        LET s1 == [s0 EXCEPT !.visited[t] = k]
            sr == IF G.again THEN <<TRUE, s1>> ELSE ShouldRun(G, s1, t)
        IN IF ~sr[1]
           THEN [sr[2] EXCEPT !.cached = Append(@, t)]
           ELSE LET s2 == [sr[2] EXCEPT !.lts[k].second = TRUE, !.stack = Append(@, k)]
                IN PushDeps(G.deps[t], Len(G.deps[t]), s2, k, <<>>)
    ELSE
        LET ver == IF G.kind[t] = "exp" THEN NewTs(G, s0) ELSE 0
            s1  == IF G.kind[t] = "exp"
                   THEN [s0 EXCEPT !.retrieved[t] = TRUE, !.sel[t] = ver, !.lastTs = ver]
                   ELSE s0
            s2  == EnsureAll(G, s1, G.deps[t], 1)
            \* fixed code links through `visited` (the lowering task that was actually lowered)
            LtOf(i) == IF FixedD1 THEN s2.visited[s2.lts[lt.deps[i]].task] ELSE lt.deps[i]
            exe == UNION {RangeS(s2.lts[LtOf(i)].out) : i \in 1..Len(lt.deps)}
            op  == [task |-> t, exe |-> exe, deps |-> DepSnapshot(G, s2, t), ver |-> ver]
            o   == Len(s2.ops) + 1
        IN [s2 EXCEPT !.ops = Append(@, op),
                      !.lts[k].out = Append(@, o),
                      !.initial = IF exe = {} THEN Append(@, o) ELSE @,
                      !.numToRun = @ + 1]

RECURSIVE PlanFrom(_, _)
PlanFrom(G, s) == IF s.done THEN s ELSE PlanFrom(G, PStep(G, s))
PlanOf(G) == PlanFrom(G, PInit(G))

(***************************************************************************)
(* Declarative side: what a plan must be                                   *)
(***************************************************************************)
MustRun(G, t) == G.kind[t] # "exp" \/ G.again \/ G.cachedTs[t] = 0 \/ (G.atLeast /\ G.stale[t])

RECURSIVE NeededFrom(_, _)
NeededFrom(G, t) ==
    IF ~MustRun(G, t) THEN {}
    ELSE {t} \cup UNION {NeededFrom(G, G.deps[t][i]) : i \in 1..Len(G.deps[t])}
Needed(G) == NeededFrom(G, G.target)

CachedFrontier(G) ==
    {t \in 1..G.n : ~MustRun(G, t) /\ (t = G.target \/ \E p \in Needed(G) : t \in RangeS(G.deps[p]))}

OpsOf(s, t) == {i \in 1..Len(s.ops) : s.ops[i].task = t}

(* C02 *)
ExactlyOnce(G, s)  == \A t \in 1..G.n : Cardinality(OpsOf(s, t)) = (IF t \in Needed(G) THEN 1 ELSE 0)
CachedExact(G, s)  == /\ RangeS(s.cached) = CachedFrontier(G)
                      /\ Len(s.cached) = Cardinality(RangeS(s.cached))
                      /\ \A i \in 1..Len(s.cached) : OpsOf(s, s.cached[i]) = {}
TotalIsNeeded(G, s) == s.numToRun = Cardinality(Needed(G))
(* C01 static half *)
EdgesExact(G, s)   == \A i \in 1..Len(s.ops) :
                         {s.ops[o].task : o \in s.ops[i].exe} = RangeS(G.deps[s.ops[i].task]) \cap Needed(G)
InitialExact(G, s) == RangeS(s.initial) = {i \in 1..Len(s.ops) : s.ops[i].exe = {}}
(* C08 (one half) *)
FreshIds(G, s)     == \A i, j \in 1..Len(s.ops) :
                         /\ (s.ops[i].ver # 0 => s.ops[i].ver > G.lastTs0)
                         /\ (i # j /\ s.ops[i].ver # 0 => s.ops[i].ver # s.ops[j].ver)
(* C07: one selected version per task, and every dependent sees exactly that one *)
SelOf(G, s, d)     == IF d \in Needed(G) THEN s.ops[CHOOSE i \in OpsOf(s, d) : TRUE].ver ELSE G.cachedTs[d]
HasOut(G, s, d)    == G.kind[d] # "group" /\ (G.kind[d] = "exp" => SelOf(G, s, d) # 0)
SnapshotExact(G, s) ==
    ExactlyOnce(G, s) =>
    \A i \in 1..Len(s.ops) :
        LET t == s.ops[i].task
            want == SelectSeq([j \in 1..Len(G.deps[t]) |->
                                  IF HasOut(G, s, G.deps[t][j])
                                  THEN <<G.deps[t][j], IF G.kind[G.deps[t][j]] = "exp" THEN SelOf(G, s, G.deps[t][j]) ELSE 0>>
                                  ELSE <<0, 0>>], LAMBDA p : p[1] # 0)
        IN s.ops[i].deps = want

(* per-task flavour: <<kind, cachedTs, stale>>; built directly so that only well-formed graphs are generated *)
Flavours(mode) ==
    {<<k, 0, FALSE>> : k \in Kinds}
      \cup (IF "exp" \in Kinds THEN {<<"exp", 5, FALSE>>} ELSE {})
      \cup (IF "exp" \in Kinds /\ mode = "atleast" THEN {<<"exp", 5, TRUE>>} ELSE {})

Graphs ==
    UNION {
      {[n |-> N, target |-> N, deps |-> d, kind |-> [t \in 1..N |-> f[t][1]], par |-> [t \in 1..N |-> FALSE],
        cachedTs |-> [t \in 1..N |-> f[t][2]], stale |-> [t \in 1..N |-> f[t][3]],
        again |-> (mode = "again"), atLeast |-> (mode = "atleast"), now |-> 10, lastTs0 |-> mx] :
          d \in OrderedDeps(N), f \in [1..N -> Flavours(mode)], mx \in {5, 10, 12}} : mode \in Modes}

=============================================================================
