SPECIFICATION Spec
INVARIANT Export
CHECK_DEADLOCK TRUE
