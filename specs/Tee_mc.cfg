CONSTANT NTok = 3
CONSTANT Cap = 2
CONSTANT R = 2
CONSTANT JoinBeforeRecord = TRUE
SPECIFICATION Spec
INVARIANT RecordedImpliesExact
INVARIANT PrefixAlways
PROPERTY Terminates
CHECK_DEADLOCK TRUE
