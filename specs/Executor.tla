------------------------------ MODULE Executor ------------------------------
(***************************************************************************)
(* Implementation-shaped model of `cond run` after planning:               *)
(*   execution/executor.py  (Executor.run_plan, _launch_ops_if_able,       *)
(*                           _wait_for_next_inflight_op, _process_finished_op,*)
(*                           _report_execution_results, _InflightOperations)*)
(*   execution/ops/*.py     (start_execution / finish_execution)           *)
(*   utils/sigchld.py       (self-pipe SIGCHLD helper)                     *)
(* composed with the part of Linux + CPython it relies on (process table,  *)
(* zombies, one SIGCHLD standing for many exits, and - when SecondReaper - *)
(* CPython's own reaper: Popen.__del__ and subprocess._cleanup()).         *)
(*                                                                         *)
(* Initial states: the plan (Planner.tla, PlanOf) of every task graph.     *)
(* One main-thread action per system call the environment can race with.   *)
(* The observable events of every step are fed to the RunObs monitor; the  *)
(* properties C01 C03 C04 C09 are `m.viol = {}` plus termination.          *)
(***************************************************************************)
EXTENDS PlannerCore, Integers

CONSTANTS MaxJobs,        \* --jobs ranges over 1..MaxJobs
          StopModes,      \* subset of BOOLEAN: --stop-early
          ExitCodes,      \* e.g. {0, 1}
          LaunchFail,     \* BOOLEAN: fork may fail
          SecondReaper,   \* BOOLEAN: the Popen object is dropped, so __del__/_cleanup poll waitpid(pid)
          WakeupFd,       \* BOOLEAN: the self-pipe is the signal wakeup fd (written by the C-level handler, one byte per
                          \* delivered signal) and wait() loops until a return code is recorded (code after the D14 repair);
                          \* FALSE: the Python-level handler writes one byte per reaped child and wait() reads exactly one
          JobControl,     \* BOOLEAN: a running task process may be stopped (SIGSTOP/SIGTSTP from outside) once and continued
                          \* later; the parent gets SIGCHLD for both (no SA_NOCLDSTOP), waitpid(-1, WNOHANG) reports neither
          AllowAbort      \* BOOLEAN: SIGINT/SIGTERM may arrive (once) at any step; start_execution is then modelled in
                          \* finer steps (child forked / Popen bound / handle returned / registered)

RO == INSTANCE RunObs

Runs(x)  == x \in {"running", "resumed"}             \* can exit
Alive(x) == x \in {"running", "resumed", "stopped"}  \* exists and has not exited

VARIABLES gr,        \* the task graph (Planner.tla record) with par flags
          pl,        \* its plan
          jobs, stop,
          pc, cur, curSlot,
          ost,       \* op -> "QUEUED" | "SKIPPED" | "SUCCEEDED" | "FAILED"
          waiting,   \* op -> outstanding dependency counter
          readyP, readyS,          \* the two ready deques
          inflP,     \* registered process ops (dict pid -> ...)
          inflS,     \* registered sync ops (list, popped from the end)
          slots,     \* free-slot stack
          runPar, completed, ndeq,
          proc,      \* op -> "none" | "running" | "stopped" | "resumed" (running again after a stop) | "zombie" | "reaped"
          code,      \* op -> exit code
          sigPending, pipe, rcs,   \* pending SIGCHLD, bytes in the self-pipe, SigchldHelper._returncodes
          active,    \* subprocess._active
          slotOf, recorded, launchFailed,
          abortPc,   \* "" or the pc at which the interrupt arrived
          m          \* RunObs monitor state

vars == <<gr, pl, jobs, stop, pc, cur, curSlot, ost, waiting, readyP, readyS, inflP, inflS, slots, runPar,
          completed, ndeq, proc, code, sigPending, pipe, rcs, active, slotOf, recorded, launchFailed, abortPc, m>>

Ops == 1..Len(pl.ops)
TaskOf(o) == pl.ops[o].task
Exe(o) == pl.ops[o].exe
DepsOfOp(o) == {x \in Ops : o \in Exe(x)}
IsSync(o) == gr.kind[TaskOf(o)] \in {"group", "combine"}
ParOp(o) == ~IsSync(o) /\ gr.par[TaskOf(o)]

Cfg == [n |-> gr.n, target |-> gr.target, deps |-> gr.deps, kind |-> gr.kind, par |-> gr.par,
        reusable |-> [t \in 1..gr.n |-> ~MustRun(gr, t)], jobs |-> jobs, stop |-> stop, linesLate |-> FALSE]

(* graphs for execution: planning-only dimensions are fixed *)
ExecGraphs ==
    {[G EXCEPT !.par = p] : G \in {H \in Graphs : H.lastTs0 = 5},
                            p \in [1..N -> BOOLEAN]}
ParOK(G) == \A t \in 1..G.n : G.par[t] => (G.kind[t] \in {"exp", "cmd"} /\ MustRun(G, t))

RECURSIVE CachedLines(_, _, _)
CachedLines(c, i, mm) == IF i > Len(c) THEN mm ELSE CachedLines(c, i + 1, RO!OnCachedLine(Cfg, mm, c[i]))

InitWith(G, j, st) ==
    /\ gr = G
    /\ pl = PlanOf(G)
    /\ jobs = j /\ stop = st
    /\ pc = "start" /\ cur = 0 /\ curSlot = -1
    /\ ost = [o \in 1..Len(PlanOf(G).ops) |-> "QUEUED"]
    /\ waiting = [o \in 1..Len(PlanOf(G).ops) |-> Cardinality(PlanOf(G).ops[o].exe)]
    /\ readyP = <<>> /\ readyS = <<>> /\ inflP = {} /\ inflS = <<>>
    /\ slots = [i \in 1..j |-> j - i]             \* list(reversed(range(slots))): top of stack = slot 0
    /\ runPar = FALSE /\ completed = <<>> /\ ndeq = 0
    /\ proc = [o \in 1..Len(PlanOf(G).ops) |-> "none"] /\ code = [o \in 1..Len(PlanOf(G).ops) |-> 0]
    /\ sigPending = FALSE /\ pipe = 0 /\ rcs = <<>> /\ active = {}
    /\ slotOf = [o \in 1..Len(PlanOf(G).ops) |-> -1] /\ recorded = {} /\ launchFailed = {} /\ abortPc = ""
    /\ m = RO!MonInit

Init == \E G \in {H \in ExecGraphs : ParOK(H)} : \E j \in 1..MaxJobs : \E st \in StopModes : InitWith(G, j, st)

Kern == <<proc, code, sigPending, pipe, rcs, active>>
Conf == <<gr, pl, jobs, stop, abortPc>>

Enq(rp, rs, o) == IF ParOp(o) THEN <<Append(rp, o), rs>> ELSE <<rp, Append(rs, o)>>
RECURSIVE EnqAll(_, _, _)
EnqAll(rp, rs, s) == IF s = <<>> THEN <<rp, rs>> ELSE LET r == Enq(rp, rs, Head(s)) IN EnqAll(r[1], r[2], Tail(s))
SortedSeq(S) == SetToSortSeq(S, <)
(* every order in which waitpid(-1) may hand out a set of zombies (the kernel does not promise one) *)
SeqsOf(S) == {q \in [1..Cardinality(S) -> S] : \A i, j \in 1..Cardinality(S) : i # j => q[i] # q[j]}

(* _process_finished_op: decrement the dependents' counters, enqueue those reaching 0 (in deps_of order) *)
Finished(o, w, rp, rs) ==
    LET w2 == [x \in Ops |-> IF x \in DepsOfOp(o) THEN w[x] - 1 ELSE w[x]]
        r  == EnqAll(rp, rs, SortedSeq({x \in DepsOfOp(o) : w2[x] = 0}))
    IN <<w2, r[1], r[2]>>

NInfl == Cardinality(inflP) + Len(inflS)
HasOps == readyP # <<>> \/ readyS # <<>>

(* run_plan: print cached tasks, load the initial operations, install the SIGCHLD handler *)
Start ==
    /\ pc = "start"
    /\ LET r == EnqAll(<<>>, <<>>, pl.initial) IN readyP' = r[1] /\ readyS' = r[2]
    /\ m' = CachedLines(pl.cached, 1, m)
    /\ pc' = "loop"
    /\ UNCHANGED <<Conf, cur, curSlot, ost, waiting, inflP, inflS, slots, runPar, completed, ndeq, Kern, slotOf,
                   recorded, launchFailed>>

LoopTest ==
    /\ pc = "loop"
    /\ pc' = IF HasOps \/ NInfl > 0 THEN "launch" ELSE "after_loop"
    /\ UNCHANGED <<Conf, cur, curSlot, ost, waiting, readyP, readyS, inflP, inflS, slots, runPar, completed, ndeq,
                   Kern, slotOf, recorded, launchFailed, m>>

(* one iteration of the `while True` loop of _launch_ops_if_able up to the call of start_execution *)
Launch ==
    /\ pc = "launch"
    /\ LET canAny == HasOps /\ NInfl = 0
           canPar == runPar /\ NInfl < jobs /\ readyP # <<>>
       IN IF ~canAny /\ ~canPar
          THEN /\ pc' = IF NInfl = 0 THEN "loop" ELSE "wait"
               /\ UNCHANGED <<cur, curSlot, ost, waiting, readyP, readyS, runPar, completed, ndeq, m>>
          ELSE LET o  == IF readyP # <<>> THEN Head(readyP) ELSE Head(readyS)
                   rp == IF readyP # <<>> THEN Tail(readyP) ELSE readyP
                   rs == IF readyP # <<>> THEN readyS ELSE Tail(readyS)
                   k  == ndeq + 1
               IN /\ runPar' = ParOp(o) /\ ndeq' = k
                  /\ IF \E d \in Exe(o) : ost[d] # "SUCCEEDED"
                     THEN LET f == Finished(o, waiting, rp, rs) IN
                          /\ ost' = [ost EXCEPT ![o] = "SKIPPED"] /\ completed' = Append(completed, o)
                          /\ waiting' = f[1] /\ readyP' = f[2] /\ readyS' = f[3]
                          /\ m' = RO!OnSkippingLine(Cfg, m, TaskOf(o), k, pl.numToRun)
                          /\ pc' = "launch" /\ UNCHANGED <<cur, curSlot>>
                     ELSE /\ cur' = o
                          /\ curSlot' = IF ParOp(o) /\ jobs > 1 THEN slots[Len(slots)] ELSE -1
                          /\ readyP' = rp /\ readyS' = rs
                          /\ m' = RO!OnRunningLine(Cfg, m, TaskOf(o), k, pl.numToRun)
                          /\ pc' = IF IsSync(o) THEN "sync_start" ELSE (IF SecondReaper THEN "cleanup" ELSE "fork")
                          /\ UNCHANGED <<ost, waiting, completed>>
    /\ UNCHANGED <<Conf, inflP, inflS, slots, Kern, slotOf, recorded, launchFailed>>

SyncStart ==
    /\ pc = "sync_start" /\ inflS' = Append(inflS, cur) /\ pc' = "launch"
    /\ UNCHANGED <<Conf, cur, curSlot, ost, waiting, readyP, readyS, inflP, slots, runPar, completed, ndeq, Kern,
                   slotOf, recorded, launchFailed, m>>

(* Popen.__init__ -> subprocess._cleanup(): poll every instance in _active; a zombie is reaped HERE *)
Cleanup ==
    /\ pc = "cleanup"
    /\ LET z == {p \in active : proc[p] = "zombie"} IN
         /\ proc' = [p \in Ops |-> IF p \in z THEN "reaped" ELSE proc[p]]
         /\ active' = {p \in active : Alive(proc'[p])}
    /\ pc' = "fork"
    /\ UNCHANGED <<Conf, cur, curSlot, ost, waiting, readyP, readyS, inflP, inflS, slots, runPar, completed, ndeq,
                   code, sigPending, pipe, rcs, slotOf, recorded, launchFailed, m>>

ForkOK ==
    /\ pc = "fork"
    /\ proc' = [proc EXCEPT ![cur] = "running"]
    /\ m' = RO!OnSpawn(Cfg, m, TaskOf(cur), curSlot, pl.ops[cur].ver)
    /\ pc' = IF SecondReaper THEN "del" ELSE IF AllowAbort THEN "infork" ELSE "register"
    /\ UNCHANGED <<Conf, cur, curSlot, ost, waiting, readyP, readyS, inflP, inflS, slots, runPar, completed, ndeq,
                   code, sigPending, pipe, rcs, active, slotOf, recorded, launchFailed>>

(* Popen.__init__ returns and `process` is bound; then start_execution returns the handle; only then add_op *)
Stepping(from, to) ==
    /\ pc = from /\ pc' = to
    /\ UNCHANGED <<Conf, cur, curSlot, ost, waiting, readyP, readyS, inflP, inflS, slots, runPar, completed, ndeq, Kern,
                   slotOf, recorded, launchFailed, m>>
BindPopen == Stepping("infork", "bound")
ReturnHandle == Stepping("bound", "register")

(* OSError from Popen -> TaskFailed -> FAILED, _process_finished_op, "failed" line; stop-early returns True *)
ForkFail ==
    /\ pc = "fork" /\ LaunchFail
    /\ LET f == Finished(cur, waiting, readyP, readyS) IN
         /\ ost' = [ost EXCEPT ![cur] = "FAILED"] /\ completed' = Append(completed, cur)
         /\ waiting' = f[1] /\ readyP' = f[2] /\ readyS' = f[3]
    /\ launchFailed' = launchFailed \cup {cur}
    /\ m' = RO!OnFailedLine(Cfg, RO!OnSpawnFail(Cfg, m, TaskOf(cur)), TaskOf(cur), FALSE)
    /\ pc' = IF stop THEN "after_loop" ELSE "launch"
    /\ UNCHANGED <<Conf, cur, curSlot, inflP, inflS, slots, runPar, ndeq, Kern, slotOf, recorded>>

(* start_execution returns: the local Popen object dies; __del__ polls waitpid(pid) *)
Del ==
    /\ pc = "del"
    /\ IF proc[cur] = "zombie"
       THEN proc' = [proc EXCEPT ![cur] = "reaped"] /\ UNCHANGED active
       ELSE active' = (IF Alive(proc[cur]) THEN active \cup {cur} ELSE active) /\ UNCHANGED proc
    /\ pc' = "register"
    /\ UNCHANGED <<Conf, cur, curSlot, ost, waiting, readyP, readyS, inflP, inflS, slots, runPar, completed, ndeq,
                   code, sigPending, pipe, rcs, slotOf, recorded, launchFailed, m>>

(* handle.slot = slot; add_op; pop the slot *)
Register ==
    /\ pc = "register"
    /\ inflP' = inflP \cup {cur} /\ slotOf' = [slotOf EXCEPT ![cur] = curSlot]
    /\ slots' = IF curSlot >= 0 THEN SubSeq(slots, 1, Len(slots) - 1) ELSE slots
    /\ pc' = "launch"
    /\ UNCHANGED <<Conf, cur, curSlot, ost, waiting, readyP, readyS, inflS, runPar, completed, ndeq, Kern, recorded,
                   launchFailed, m>>

(* wait_for_next_op: sync ops first (list.pop()); else SigchldHelper.wait().                                        *)
(* The main thread either finds what it needs and goes on, or ENTERS THE BLOCKING read() (pc = "blocked").  While it *)
(* is blocked the Python-level handler cannot run; it is woken by a byte in the pipe, or by a signal that arrives   *)
(* DURING the read (EINTR, see ChildExit).  A signal whose C-level handler ran just BEFORE the read started - the   *)
(* interleaving ChildExit ; WaitTry with no Handler in between - does not interrupt it.                             *)
PopRc ==
    LET e == rcs[Len(rcs)] IN
    /\ rcs' = SubSeq(rcs, 1, Len(rcs) - 1)
    /\ IF e \in inflP THEN cur' = e /\ inflP' = inflP \ {e} /\ pc' = "finish"
       ELSE UNCHANGED <<cur, inflP, pc>>        \* a pid that is not ours: ignored, wait again
WaitTry ==
    /\ pc = "wait"
    /\ IF inflS # <<>>
       THEN /\ cur' = inflS[Len(inflS)] /\ inflS' = SubSeq(inflS, 1, Len(inflS) - 1) /\ pc' = "finish"
            /\ UNCHANGED <<pipe, rcs, inflP, proc, sigPending>>
       ELSE /\ UNCHANGED inflS
            /\ IF WakeupFd
               THEN IF rcs # <<>> THEN PopRc /\ UNCHANGED <<pipe, proc, sigPending>>
                    ELSE IF pipe > 0
                         THEN \* read(4096) returns (drains the bytes); back in the interpreter loop the pending
                              \* Python-level handler runs before the loop condition is evaluated again
                              /\ pipe' = 0
                              /\ IF sigPending
                                 THEN /\ \E z \in SeqsOf({p \in Ops : proc[p] = "zombie"}) : rcs' = rcs \o z
                                      /\ proc' = [p \in Ops |-> IF proc[p] = "zombie" THEN "reaped" ELSE proc[p]]
                                      /\ sigPending' = FALSE
                                 ELSE UNCHANGED <<rcs, proc, sigPending>>
                              /\ UNCHANGED <<cur, inflP, pc>>
                         ELSE pc' = "blocked" /\ UNCHANGED <<pipe, rcs, cur, inflP, proc, sigPending>>
               ELSE IF pipe > 0 THEN pipe' = pipe - 1 /\ PopRc /\ UNCHANGED <<proc, sigPending>>
                    ELSE pc' = "blocked" /\ UNCHANGED <<pipe, rcs, cur, inflP, proc, sigPending>>
    /\ UNCHANGED <<Conf, curSlot, ost, waiting, readyP, readyS, slots, runPar, completed, ndeq, code,
                   active, slotOf, recorded, launchFailed, m>>
Unblock ==      \* data arrived in the pipe: read() returns
    /\ pc = "blocked" /\ pipe > 0 /\ pc' = "wait"
    /\ UNCHANGED <<Conf, cur, curSlot, ost, waiting, readyP, readyS, inflP, inflS, slots, runPar, completed, ndeq, Kern,
                   slotOf, recorded, launchFailed, m>>

(* finish_execution + set_state + slot release + _process_finished_op *)
Finish ==
    /\ pc = "finish"
    /\ LET ok == IsSync(cur) \/ code[cur] = 0
           f  == Finished(cur, waiting, readyP, readyS)
           t  == TaskOf(cur)
       IN /\ ost' = [ost EXCEPT ![cur] = IF ok THEN "SUCCEEDED" ELSE "FAILED"]
          /\ completed' = Append(completed, cur)
          /\ waiting' = f[1] /\ readyP' = f[2] /\ readyS' = f[3]
          /\ slots' = IF ~IsSync(cur) /\ slotOf[cur] >= 0 THEN Append(slots, slotOf[cur]) ELSE slots
          /\ recorded' = IF ok /\ gr.kind[t] = "exp" THEN recorded \cup {t} ELSE recorded
          /\ m' = IF ok THEN RO!OnSuccessLine(Cfg, m, t) ELSE RO!OnFailedLine(Cfg, m, t, FALSE)
          /\ pc' = IF ~ok /\ stop THEN "after_loop" ELSE "loop"
    /\ UNCHANGED <<Conf, cur, curSlot, inflP, inflS, runPar, ndeq, Kern, slotOf, launchFailed>>

(* terminate_processes(): getpgid + killpg(SIGTERM) for every registered process that still has a pid entry *)
RECURSIVE KillAll(_, _)
KillAll(ps, mm) == IF ps = {} THEN mm
                   ELSE LET p == CHOOSE x \in ps : TRUE IN KillAll(ps \ {p}, RO!OnKill(Cfg, mm, TaskOf(p), 15, FALSE, TRUE))
AfterLoop ==
    /\ pc = "after_loop"
    /\ LET victims == {p \in inflP : (Alive(proc[p]) \/ proc[p] = "zombie")} IN
         /\ m' = KillAll(victims, m)
         \* SIGTERM: a running child dies
         /\ proc' = [p \in Ops |-> IF p \in victims /\ Alive(proc[p]) THEN "zombie" ELSE proc[p]]
         /\ code' = [p \in Ops |-> IF p \in victims /\ Alive(proc[p]) THEN 1015 ELSE code[p]]
    /\ pc' = "kill_exits"
    /\ UNCHANGED <<Conf, cur, curSlot, ost, waiting, readyP, readyS, inflP, inflS, slots, runPar, completed, ndeq,
                   sigPending, pipe, rcs, active, slotOf, recorded, launchFailed>>

RECURSIVE ExitAll(_, _)
ExitAll(ps, mm) == IF ps = {} THEN mm
                   ELSE LET p == CHOOSE x \in ps : TRUE IN ExitAll(ps \ {p}, RO!OnExit(Cfg, mm, TaskOf(p), 1015))
KillExits ==
    /\ pc = "kill_exits"
    /\ m' = ExitAll({p \in Ops : code[p] = 1015 /\ TaskOf(p) \in m.live}, m)
    /\ pc' = "report"
    /\ UNCHANGED <<Conf, cur, curSlot, ost, waiting, readyP, readyS, inflP, inflS, slots, runPar, completed, ndeq,
                   Kern, slotOf, recorded, launchFailed>>

(* _report_execution_results + cli_command: exit status and the two lists *)
Report ==
    /\ pc = "report"
    /\ LET done  == {completed[i] : i \in 1..Len(completed)}
           allOk == \A o \in done : ost[o] = "SUCCEEDED"
           tgtRun == \E o \in done : TaskOf(o) = gr.target
           tgtCached == completed = <<>> /\ gr.target \in RangeS(pl.cached)
           good == allOk /\ (tgtRun \/ tgtCached)
           failedL == {TaskOf(o) : o \in {x \in done : ost[x] = "FAILED"}}
           skippedL == {TaskOf(o) : o \in {x \in done : ost[x] = "SKIPPED"}}
       IN m' = RO!OnReturn(Cfg, m, IF good THEN 0 ELSE (IF failedL = {} THEN -1 ELSE 1), FALSE,
                           IF good THEN "none" ELSE "ERROR", failedL, skippedL, recorded, FALSE)
    /\ pc' = "done"
    /\ UNCHANGED <<Conf, cur, curSlot, ost, waiting, readyP, readyS, inflP, inflS, slots, runPar, completed, ndeq,
                   Kern, slotOf, recorded, launchFailed>>

(* blocked forever in os.read on the self-pipe: nothing can ever write to it *)
Hang ==
    /\ pc = "blocked" /\ pipe = 0 /\ \A p \in Ops : ~Alive(proc[p])
    /\ m' = RO!OnReturn(Cfg, m, -1, TRUE, "none", {}, {}, recorded, FALSE)
    /\ pc' = "done"
    /\ UNCHANGED <<Conf, cur, curSlot, ost, waiting, readyP, readyS, inflP, inflS, slots, runPar, completed, ndeq,
                   Kern, slotOf, recorded, launchFailed>>

(***************************************************************************)
(* Environment                                                             *)
(***************************************************************************)
ChildExit(p) ==
    /\ Runs(proc[p]) /\ pc \notin {"after_loop", "kill_exits", "report", "done", "abort_exits", "abort_report"}
    /\ \E c \in ExitCodes :
         /\ code' = [code EXCEPT ![p] = c]
         /\ m' = RO!OnExit(Cfg, m, TaskOf(p), c)
    /\ proc' = [proc EXCEPT ![p] = "zombie"] /\ sigPending' = TRUE
    \* the C-level handler: with the wakeup fd it writes a byte at once; a signal DURING a blocked read interrupts it
    /\ pipe' = IF WakeupFd /\ pc # "start" THEN pipe + 1 ELSE pipe
    /\ pc' = IF pc = "blocked" THEN "wait" ELSE pc
    /\ UNCHANGED <<Conf, cur, curSlot, ost, waiting, readyP, readyS, inflP, inflS, slots, runPar, completed, ndeq,
                   rcs, active, slotOf, recorded, launchFailed>>

(* Job control from outside: the stop and the continuation each raise SIGCHLD in the parent; neither changes what     *)
(* waitpid(-1, WNOHANG) returns, so the handler finds nothing new for them.  A signal sent to a stopped process by  *)
(* Conductor (stop-early, abort) is modelled as taking effect at once (in reality: when it is continued).            *)
StopOrCont(p) ==
    /\ JobControl /\ proc[p] \in {"running", "stopped"}
    /\ pc \notin {"after_loop", "kill_exits", "report", "done", "abort_exits", "abort_report"}
    /\ proc' = [proc EXCEPT ![p] = IF proc[p] = "running" THEN "stopped" ELSE "resumed"] /\ sigPending' = TRUE
    /\ pipe' = IF WakeupFd /\ pc # "start" THEN pipe + 1 ELSE pipe
    /\ pc' = IF pc = "blocked" THEN "wait" ELSE pc
    /\ UNCHANGED <<Conf, cur, curSlot, ost, waiting, readyP, readyS, inflP, inflS, slots, runPar, completed, ndeq,
                   code, rcs, active, slotOf, recorded, launchFailed, m>>

(* SigchldHelper._handler: reap ALL zombies with waitpid(-1, WNOHANG), one pipe byte per recorded exit *)
Handler ==
    /\ sigPending /\ pc \notin {"start", "blocked", "after_loop", "kill_exits", "report", "done", "abort_exits", "abort_report"}
    /\ \E z \in SeqsOf({p \in Ops : proc[p] = "zombie"}) :
         /\ rcs' = rcs \o z /\ pipe' = IF WakeupFd THEN pipe ELSE pipe + Len(z)
         /\ proc' = [p \in Ops |-> IF proc[p] = "zombie" THEN "reaped" ELSE proc[p]]
    /\ sigPending' = FALSE
    /\ UNCHANGED <<Conf, pc, cur, curSlot, ost, waiting, readyP, readyS, inflP, inflS, slots, runPar, completed, ndeq,
                   code, active, slotOf, recorded, launchFailed, m>>

(***************************************************************************)
(* SIGINT / SIGTERM (errors/signal.py raises ConductorAbort in the main    *)
(* thread at a byte-code boundary).  Who reacts depends on where it lands: *)
(*  - inside start_execution with `process` bound: that process is         *)
(*    signalled by start_execution's own handler;                          *)
(*  - everywhere: run_plan's handler signals the REGISTERED processes.     *)
(* A child forked but not yet bound ("infork"), or bound and returned but  *)
(* not yet registered (pc = "register"), is signalled by nobody.           *)
(***************************************************************************)
LiveOps == {p \in Ops : Alive(proc[p]) \/ proc[p] = "zombie"}
Abort ==
    /\ AllowAbort /\ abortPc = "" /\ pc \notin {"done", "abort_exits", "abort_report", "kill_exits"}
    /\ abortPc' = pc
    /\ LET victims == {p \in (inflP \cup (IF pc = "bound" THEN {cur} ELSE {})) : (Alive(proc[p]) \/ proc[p] = "zombie")} IN
         /\ m' = KillAll(victims, RO!OnAbort(Cfg, m, {TaskOf(p) : p \in LiveOps}))
         /\ proc' = [p \in Ops |-> IF p \in victims /\ Alive(proc[p]) THEN "zombie" ELSE proc[p]]
         /\ code' = [p \in Ops |-> IF p \in victims /\ Alive(proc[p]) THEN 1015 ELSE code[p]]
    /\ pc' = "abort_exits"
    /\ UNCHANGED <<gr, pl, jobs, stop, cur, curSlot, ost, waiting, readyP, readyS, inflP, inflS, slots, runPar, completed,
                   ndeq, sigPending, pipe, rcs, active, slotOf, recorded, launchFailed>>
AbortExits ==
    /\ pc = "abort_exits"
    /\ m' = ExitAll({p \in Ops : code[p] = 1015 /\ TaskOf(p) \in m.live}, m)
    /\ pc' = "abort_report"
    /\ UNCHANGED <<Conf, cur, curSlot, ost, waiting, readyP, readyS, inflP, inflS, slots, runPar, completed, ndeq,
                   Kern, slotOf, recorded, launchFailed>>
AbortReport ==     \* "Task aborted" banner, ConductorAbort -> cli_command -> ERROR, exit status 1
    /\ pc = "abort_report"
    /\ m' = RO!OnReturn(Cfg, m, 1, FALSE, "ERROR", {}, {}, recorded, TRUE)
    /\ pc' = "done"
    /\ UNCHANGED <<Conf, cur, curSlot, ost, waiting, readyP, readyS, inflP, inflS, slots, runPar, completed, ndeq,
                   Kern, slotOf, recorded, launchFailed>>

Main == Start \/ LoopTest \/ Launch \/ SyncStart \/ Cleanup \/ ForkOK \/ ForkFail \/ Del \/ Register \/ WaitTry \/ Unblock
        \/ Finish \/ AfterLoop \/ KillExits \/ Report \/ Hang \/ BindPopen \/ ReturnHandle \/ AbortExits \/ AbortReport
Done == pc = "done" /\ UNCHANGED vars
Next == Main \/ Done \/ Handler \/ Abort \/ \E p \in Ops : ChildExit(p) \/ StopOrCont(p)
Spec == Init /\ [][Next]_vars /\ WF_vars(Main) /\ WF_vars(Handler)
             /\ \A p \in 1..N : WF_vars(p \in Ops /\ ChildExit(p)) /\ WF_vars(p \in Ops /\ proc[p] = "stopped" /\ StopOrCont(p))

(***************************************************************************)
(* Properties                                                              *)
(***************************************************************************)
NoViolation == m.viol = {}
(* named projections, so that a counterexample names the property *)
ViolIn(S) == m.viol \cap S = {}
C01 == ViolIn({"StartAfterDepsExit0", "NoOverlapWithDependency"})
C02 == ViolIn({"OnlyNeeded", "AtMostOnce", "CachedIsReusable", "CachedOnce", "NotAlsoStarted", "TotalIsNeeded",
               "CounterMonotone", "RowsOnlyForExit0"})
C03 == ViolIn({"SkipIffDependsOnFailure", "SkippedNeverStarted", "ExitZeroIffAllSucceeded", "FailedListExact",
               "SkippedListExact", "IndependentsRan", "NothingAfterFirstFailure", "StopEarlyKilledRunning",
               "NoInternalError"})
C04 == ViolIn({"AtMostJobs", "SequentialAlone", "DistinctSlots", "SlotRange", "SlotIffParallel"})
C09 == ViolIn({"TerminatesWhenAllExited", "OneOutcomeEach", "StatusBelongsToTask"})
(* C16 holds in the design EXCEPT when the interrupt lands in one of the two windows in which a child exists that
   nobody has a handle for yet (known findings K1, K2 in known_findings.json); K3 (finalizer) is a CPython matter *)
KnownAbortWindows == {"infork", "register"}
C16 == ViolIn({"AllLiveKilled", "AbortedNotInternal"}) \/ abortPc \in KnownAbortWindows
C16Rows == ViolIn({"RowsOnlyForExit0"})
C16WindowsAreReal == ~(abortPc \in KnownAbortWindows /\ pc = "done" /\ "AllLiveKilled" \in m.viol)

(* implementation invariants the mechanisms of C09 / C04 rest on *)
PipeMatchesList == WakeupFd \/ pipe = Len(rcs)
SlotStack == /\ \A i, j \in 1..Len(slots) : i # j => slots[i] # slots[j]
             /\ RangeS(slots) \cap {slotOf[p] : p \in inflP} = {}
             /\ RangeS(slots) \cup {slotOf[p] : p \in inflP} \subseteq (0..(jobs - 1)) \cup {-1}
WaitingCounts == \A o \in Ops : ost[o] = "QUEUED" =>
                    waiting[o] = Cardinality({d \in Exe(o) : d \notin RangeS(completed)})
Terminates == <>(pc = "done")
=============================================================================
