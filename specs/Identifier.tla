----------------------------- MODULE Identifier -----------------------------
(***************************************************************************)
(* The documented grammar of task names and task identifiers               *)
(* (task_identifier.py), the canonical printed form, and the mapping of    *)
(* identifiers and versions to output directories (filename.py,            *)
(* task_types/base.py).  Characters are numbers:                           *)
(*   1 'a'  2 'Z'  3 '0'  4 '-'  5 '_'   identifier characters             *)
(*   6 '/'  7 ':'  8 '.'  9 '\n'  10 ' '  11 '\t'  12 '*'  13 U+212A         *)
(* (13: the Kelvin sign, a non-ASCII code point that case-folds to 'k')    *)
(* (one representative per class: lower, upper, digit, the two allowed     *)
(* punctuation marks, the separators, whitespace and control characters)   *)
(***************************************************************************)
EXTENDS Naturals, Sequences, FiniteSets, TLC, Json, IOUtils

CONSTANTS L          \* strings up to this length

IdChars == 1..5
AllChars == 1..13
SLASH == 6
COLON == 7

Strings(n) == UNION {[1..k -> AllChars] : k \in 0..n}
IdStrings(n) == UNION {[1..k -> IdChars] : k \in 1..n}       \* non-empty names

(* ---- recognisers (what the documentation says) ---- *)
IsName(s) == s # <<>> /\ \A i \in 1..Len(s) : s[i] \in IdChars
IsRel(s) == Len(s) >= 2 /\ s[1] = COLON /\ IsName(Tail(s))

Split(s, c) ==   \* positions of c in s
    {i \in 1..Len(s) : s[i] = c}
(* path: segments separated by '/', an optional trailing '/', every segment a name; "" allowed *)
RECURSIVE IsPath(_)
IsPath(p) ==
    IF p = <<>> THEN TRUE
    ELSE LET sl == Split(p, SLASH) IN
         IF sl = {} THEN IsName(p)
         ELSE LET i == CHOOSE x \in sl : \A y \in sl : x <= y
              IN i > 1 /\ IsName(SubSeq(p, 1, i - 1)) /\ IsPath(SubSeq(p, i + 1, Len(p)))
IsAbsBody(s) ==  \* path ':' name
    LET cs == Split(s, COLON) IN
    Cardinality(cs) = 1 /\ LET i == CHOOSE x \in cs : TRUE IN
                           IsPath(SubSeq(s, 1, i - 1)) /\ IsName(SubSeq(s, i + 1, Len(s)))
HasPrefix(s) == Len(s) >= 2 /\ s[1] = SLASH /\ s[2] = SLASH
IsAbs(s, requirePrefix) ==
    IF HasPrefix(s) THEN IsAbsBody(SubSeq(s, 3, Len(s)))
    ELSE ~requirePrefix /\ IsAbsBody(s)

(* ---- the same language generated constructively from the grammar ---- *)
RECURSIVE Paths(_)
Paths(n) ==   \* all path strings of length <= n
    IF n <= 0 THEN {<<>>}
    ELSE {<<>>} \cup IdStrings(n)
         \cup UNION {{seg \o <<SLASH>> \o rest : rest \in Paths(n - Len(seg) - 1)} : seg \in IdStrings(n - 1)}
GenAbsBodies(n) == UNION {{p \o <<COLON>> \o nm : nm \in IdStrings(n - Len(p) - 1)} : p \in {q \in Paths(n - 2) : Len(q) <= n - 2}}
GenAbs(n, requirePrefix) ==
    {<<SLASH, SLASH>> \o b : b \in GenAbsBodies(n - 2)} \cup (IF requirePrefix THEN {} ELSE GenAbsBodies(n))
GenRel(n) == {<<COLON>> \o nm : nm \in IdStrings(n - 1)}

(* ---- parse / print ---- *)
RECURSIVE Segments(_)
Segments(p) ==
    IF p = <<>> THEN <<>>
    ELSE LET sl == Split(p, SLASH) IN
         IF sl = {} THEN <<p>>
         ELSE LET i == CHOOSE x \in sl : \A y \in sl : x <= y
              IN <<SubSeq(p, 1, i - 1)>> \o Segments(SubSeq(p, i + 1, Len(p)))
Parse(s) ==
    LET b == IF HasPrefix(s) THEN SubSeq(s, 3, Len(s)) ELSE s
        i == CHOOSE x \in Split(b, COLON) : TRUE
    IN [path |-> Segments(SubSeq(b, 1, i - 1)), name |-> SubSeq(b, i + 1, Len(b))]
RECURSIVE Join(_)
Join(segs) == IF segs = <<>> THEN <<>> ELSE IF Len(segs) = 1 THEN segs[1] ELSE segs[1] \o <<SLASH>> \o Join(Tail(segs))
PrintId(id) == <<SLASH, SLASH>> \o Join(id.path) \o <<COLON>> \o id.name

(* ---- output directories: a path (sequence of component strings); version 0 = unversioned ---- *)
DOT == 8
TASKSUFFIX == <<DOT, 1, 1, 1, 1>>             \* stands for ".task" (any fixed string containing '.')
VerStr(v) == [i \in 1..v |-> 3]                \* digits only; distinct numbers give distinct strings
OutDir(id, v) == id.path \o << id.name \o TASKSUFFIX \o (IF v = 0 THEN <<>> ELSE <<DOT>> \o VerStr(v)) >>

(***************************************************************************)
(* Theorems checked by TLC on all strings / identifiers up to the bound    *)
(***************************************************************************)
GrammarMatchesRecogniser ==
    /\ {s \in Strings(L) : IsAbs(s, TRUE)} = GenAbs(L, TRUE)
    /\ {s \in Strings(L) : IsAbs(s, FALSE)} = GenAbs(L, FALSE)
    /\ {s \in Strings(L) : IsRel(s)} = GenRel(L)
    /\ {s \in Strings(L) : IsName(s)} = IdStrings(L)
RoundTrip ==
    \A s \in GenAbs(L, FALSE) :
        LET id == Parse(s) IN
        /\ IsAbs(PrintId(id), TRUE) /\ Parse(PrintId(id)) = id
        /\ IsName(id.name) /\ \A k \in 1..Len(id.path) : IsName(id.path[k])
Ids == {Parse(s) : s \in GenAbs(L, TRUE)}
Injective ==
    \A i1, i2 \in Ids : \A v1, v2 \in 0..2 :
        /\ (<<i1, v1>> # <<i2, v2>> => OutDir(i1, v1) # OutDir(i2, v2))
        \* no output directory is (a prefix of) the package directory of another task
        /\ \A k \in 1..Len(i2.path) : OutDir(i1, v1) # SubSeq(i2.path, 1, k)
PrintInjective == \A i1, i2 \in Ids : i1 # i2 => PrintId(i1) # PrintId(i2)

VARIABLE z
Init == z = 0
Next == FALSE /\ UNCHANGED z
Spec == Init /\ [][Next]_z
Theorems == GrammarMatchesRecogniser /\ RoundTrip /\ Injective /\ PrintInjective

(***************************************************************************)
(* Conformance: the table observed on the real code                        *)
(*  obs.names / obs.abs / obs.absnp / obs.rel : accepted strings (seqs of  *)
(*  codes) among ALL strings of length <= obs.L; obs.parsed: for every     *)
(*  accepted identifier <<string, path (seq of seqs), name, printed,       *)
(*  reparsedEqual>>; obs.outdirs: <<printed id, version, dir components>>  *)
(***************************************************************************)
Obs == JsonDeserialize(IOEnv.TRACE_FILE)
SetOfSeq(s) == {s[i] : i \in 1..Len(s)}
ObsClauses ==
    LET n == Obs.L IN
    (IF SetOfSeq(Obs.names) = IdStrings(n) THEN {} ELSE {"NameGrammar"})
    \cup (IF SetOfSeq(Obs.abs) = GenAbs(n, TRUE) THEN {} ELSE {"IdentifierGrammar"})
    \cup (IF SetOfSeq(Obs.absnp) = GenAbs(n, FALSE) THEN {} ELSE {"IdentifierGrammarNoPrefix"})
    \cup (IF SetOfSeq(Obs.rel) = GenRel(n) THEN {} ELSE {"RelativeGrammar"})
    \cup (IF \A i \in 1..Len(Obs.parsed) :
               LET r == Obs.parsed[i] IN
               IsAbs(r[1], FALSE) =>
                  /\ Parse(r[1]) = [path |-> r[2], name |-> r[3]]
                  /\ r[4] = PrintId(Parse(r[1])) /\ r[5]
          THEN {} ELSE {"CanonicalRoundTrip"})
    \cup (IF \A i, j \in 1..Len(Obs.outdirs) :
               (<<Obs.outdirs[i][1], Obs.outdirs[i][2]>> # <<Obs.outdirs[j][1], Obs.outdirs[j][2]>>)
                  => Obs.outdirs[i][3] # Obs.outdirs[j][3]
          THEN {} ELSE {"DistinctOutputDirs"})
ObsJudge == PrintT(ToJson([viol |-> ObsClauses,
                           extraNames |-> SetOfSeq(Obs.names) \ IdStrings(Obs.L),
                           extraAbs |-> SetOfSeq(Obs.absnp) \ GenAbs(Obs.L, FALSE),
                           missingAbs |-> GenAbs(Obs.L, FALSE) \ SetOfSeq(Obs.absnp),
                           extraRel |-> SetOfSeq(Obs.rel) \ GenRel(Obs.L)]))
=============================================================================
