------------------------------- MODULE Store2 -------------------------------
(***************************************************************************)
(* Several `cond` invocations working on ONE project at the same time      *)
(* (two terminals; a script that starts `cond run //:fig1 &` and           *)
(* `cond run //:fig2 &` which share an experiment; `cond gc` while a run   *)
(* is in progress).  No listed property quantifies over concurrent         *)
(* invocations (C06 / C08 speak about sequences); this module is part of   *)
(* the growth of the specification (DESIGN section 15, X02).               *)
(*                                                                         *)
(* Grain: one action per step of an invocation that touches shared state   *)
(* (the index file, the output directories) - as in the code:              *)
(*   run:  Open (read MAX(timestamp)) ; Plan (generate_new_output_version  *)
(*         until the directory does not exist - at PLANNING time) ;        *)
(*         Mkdir (exist_ok, at launch time) ; Write (the task writes its   *)
(*         output) ; Exit ; Record (INSERT + commit; the primary key       *)
(*         (task, timestamp) makes a duplicate fail) ; Done                *)
(*   gc:   Scan (unrecorded version directories) ; Delete (one by one)     *)
(* The experiment is the same task in every run invocation.                *)
(***************************************************************************)
EXTENDS Naturals, FiniteSets, TLC

CONSTANTS Runs,        \* set of run invocations, e.g. {1, 2}
          WithGc,      \* BOOLEAN: a `cond gc` invocation takes part
          Clocks       \* wall-clock seconds an invocation may read when it plans, e.g. {100} (same second) or {100, 101}

VARIABLES rows,      \* recorded versions of the experiment (set of timestamps) - the index file
          dirs,      \* existing version directories: timestamp -> set of invocations that have written into it
          rpc,       \* run invocation -> step
          last,      \* run invocation -> _last_timestamp
          ver,       \* run invocation -> chosen timestamp (0: none)
          outcome,   \* run invocation -> "none" | "recorded" | "integrity_error"
          gpc,       \* gc step
          victims    \* directories gc has decided to delete

vars == <<rows, dirs, rpc, last, ver, outcome, gpc, victims>>

Max(S) == IF S = {} THEN 0 ELSE CHOOSE x \in S : \A y \in S : y <= x

Init == /\ rows = {} /\ dirs = [t \in {} |-> {}]
        /\ rpc = [i \in Runs |-> "open"] /\ last = [i \in Runs |-> 0] /\ ver = [i \in Runs |-> 0]
        /\ outcome = [i \in Runs |-> "none"]
        /\ gpc = (IF WithGc THEN "scan" ELSE "done") /\ victims = {}

Open(i) == /\ rpc[i] = "open" /\ last' = [last EXCEPT ![i] = Max(rows)] /\ rpc' = [rpc EXCEPT ![i] = "plan"]
           /\ UNCHANGED <<rows, dirs, ver, outcome, gpc, victims>>

(* generate_new_output_version + the existence probe of _create_new_version, all at planning time *)
RECURSIVE Pick(_, _)
Pick(t, d) == IF t \in DOMAIN d THEN Pick(t + 1, d) ELSE t
Plan(i) == /\ rpc[i] = "plan"
           /\ \E now \in Clocks :
                LET first == IF now > last[i] THEN now ELSE last[i] + 1
                    t == Pick(first, dirs)
                IN ver' = [ver EXCEPT ![i] = t] /\ last' = [last EXCEPT ![i] = t]
           /\ rpc' = [rpc EXCEPT ![i] = "mkdir"]
           /\ UNCHANGED <<rows, dirs, outcome, gpc, victims>>

(* start_execution: output_path.mkdir(parents=True, exist_ok=True) *)
Mkdir(i) == /\ rpc[i] = "mkdir"
            /\ dirs' = IF ver[i] \in DOMAIN dirs THEN dirs ELSE [t \in DOMAIN dirs \cup {ver[i]} |-> IF t = ver[i] THEN {} ELSE dirs[t]]
            /\ rpc' = [rpc EXCEPT ![i] = "write"]
            /\ UNCHANGED <<rows, last, ver, outcome, gpc, victims>>

(* the task writes its results (if its directory has been deleted under it, the write fails and so does the task) *)
Write(i) == /\ rpc[i] = "write"
            /\ IF ver[i] \in DOMAIN dirs
               THEN dirs' = [dirs EXCEPT ![ver[i]] = @ \cup {i}] /\ rpc' = [rpc EXCEPT ![i] = "record"]
               ELSE UNCHANGED dirs /\ rpc' = [rpc EXCEPT ![i] = "done"]
            /\ UNCHANGED <<rows, last, ver, outcome, gpc, victims>>

(* finish_execution after exit 0: INSERT + commit *)
Record(i) == /\ rpc[i] = "record"
             /\ IF ver[i] \in rows
                THEN outcome' = [outcome EXCEPT ![i] = "integrity_error"] /\ UNCHANGED rows
                ELSE outcome' = [outcome EXCEPT ![i] = "recorded"] /\ rows' = rows \cup {ver[i]}
             /\ rpc' = [rpc EXCEPT ![i] = "done"]
             /\ UNCHANGED <<dirs, last, ver, gpc, victims>>

(* cond gc: every version directory that is not recorded is garbage *)
GcScan == /\ gpc = "scan" /\ victims' = DOMAIN dirs \ rows /\ gpc' = "delete"
          /\ UNCHANGED <<rows, dirs, rpc, last, ver, outcome>>
GcDelete == /\ gpc = "delete"
            /\ IF victims = {} THEN gpc' = "done" /\ UNCHANGED <<dirs, victims>>
               ELSE \E v \in victims : /\ dirs' = [t \in DOMAIN dirs \ {v} |-> dirs[t]]
                                       /\ victims' = victims \ {v} /\ gpc' = gpc
            /\ UNCHANGED <<rows, rpc, last, ver, outcome>>

Next == (\E i \in Runs : Open(i) \/ Plan(i) \/ Mkdir(i) \/ Write(i) \/ Record(i)) \/ GcScan \/ GcDelete
        \/ ((\A i \in Runs : rpc[i] = "done") /\ gpc = "done" /\ UNCHANGED vars)
Spec == Init /\ [][Next]_vars /\ WF_vars(Next)

(***************************************************************************)
(* What a user would expect of concurrent invocations                      *)
(***************************************************************************)
(* C08 lifted to concurrency: no two executions share an output directory *)
DirExclusive == \A t \in DOMAIN dirs : Cardinality(dirs[t]) <= 1
DistinctVersions == \A i, j \in Runs : (i # j /\ ver[i] # 0 /\ ver[j] # 0 /\ rpc[i] # "plan" /\ rpc[j] # "plan") => ver[i] # ver[j]
(* no invocation dies of an internal error *)
NoIntegrityError == \A i \in Runs : outcome[i] # "integrity_error"
(* C06 lifted to concurrency: a recorded version has its directory *)
RecordedHasDir == rows \subseteq DOMAIN dirs
(* gc never removes the directory of an execution that is still in progress *)
GcSparesRunning == \A i \in Runs : rpc[i] \in {"write", "record"} => ver[i] \in DOMAIN dirs
=============================================================================
