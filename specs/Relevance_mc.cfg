CONSTANT NC = 4
CONSTANT MaxTs = 3
SPECIFICATION Spec
INVARIANT AlgoMatchesRule
INVARIANT NeverNonAncestor
CHECK_DEADLOCK FALSE
