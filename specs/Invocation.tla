----------------------------- MODULE Invocation -----------------------------
(***************************************************************************)
(* What ONE `cond run` invocation decides before (and whether) anything is *)
(* executed: the front end of src/conductor/cli/run.py::main together with *)
(* Context.from_cwd / Context.__init__ (context.py), ConfigFile            *)
(* (config_file.py, the LAZY validation of disable_git) and the git        *)
(* questions of validate_args.  One action per statement group of main(),  *)
(* in the order of the code: the order decides WHICH error a user sees     *)
(* when several things are wrong at once, and which effects (cond-out and  *)
(* the index file are created by Context.__init__) have already happened.  *)
(*                                                                         *)
(* No listed property quantifies over the flag combinations of `cond run`  *)
(* (C14 / C15 / C17 each touch one step); this module is part of the       *)
(* growth of the specification (DESIGN section 15, X03).  Every terminal   *)
(* state is exported and replayed as ONE real invocation each (the whole   *)
(* input space is finite: the model is checked AND bound exhaustively).    *)
(***************************************************************************)
EXTENDS Naturals, FiniteSets, TLC, Json

JobsV    == {"none", "auto", "minus1", "zero", "neg", "pos"}   \* -j absent | -j | -j -1 | -j 0 | -j -2 | -j 2
RootV    == {"none", "here", "above"}        \* no cond_config.toml up the tree | cwd is the root | cwd is below the root
CondOutV == {"absent", "dir", "file"}        \* what <root>/cond-out is before the invocation
ConfigV  == {"ok", "gitoff", "unparsable", "badvalue"}   \* cond_config.toml: empty | disable_git = true | not TOML | disable_git = "yes"
GitV     == {"norepo", "empty", "ok"}        \* no repository | a repository without commits | a repository with history
AtLeastV == {"none", "HEAD", "ancestor", "anntag", "other", "bogus"}   \* --at-least: absent | HEAD | an ancestor's hash |
                                             \* an annotated tag of an ancestor | a branch that is no ancestor | an unknown symbol
TargetV  == {"cmd", "exp", "malformed", "missing_task", "missing_cond", "bad_cond"}

VARIABLES inp,        \* the invocation (constant along a behaviour)
          pc,         \* next statement group of main()
          outcome,    \* "none" | "ran" | "checked" | name of the error class reported | "Traceback:<exception>"
          condout,    \* <root>/cond-out now
          index,      \* BOOLEAN: cond-out/version_index.sqlite exists
          executed,   \* BOOLEAN: a task process has been started
          usesGit     \* the cached answer of Context.uses_git: "unknown" | "yes" | "no"
vars == <<inp, pc, outcome, condout, index, executed, usesGit>>

Inputs == [jobs : JobsV, root : RootV, condout : CondOutV, config : ConfigV, git : GitV,
           again : BOOLEAN, thisCommit : BOOLEAN, atLeast : AtLeastV, target : TargetV, check : BOOLEAN]

ForCommit(i) == i.thisCommit \/ i.atLeast # "none"

Init == /\ inp \in Inputs
        /\ pc = "jobs" /\ outcome = "none"
        /\ condout = (IF inp.root = "none" THEN "absent" ELSE inp.condout)
        /\ index = FALSE /\ executed = FALSE /\ usesGit = "unknown"

Fail(e) == pc' = "done" /\ outcome' = e
Goto(p) == pc' = p /\ UNCHANGED outcome

(* validate_and_retrieve_jobs_count: -1 is the sentinel argparse stores for a bare `-j`, so `-j -1` means "all CPUs" too *)
Jobs == /\ pc = "jobs"
        /\ IF inp.jobs \in {"zero", "neg"} THEN Fail("InvalidJobsCount") ELSE Goto("root")
        /\ UNCHANGED <<inp, condout, index, executed, usesGit>>

(* Context.from_cwd: nearest ancestor with cond_config.toml *)
Root == /\ pc = "root"
        /\ IF inp.root = "none" THEN Fail("MissingProjectRoot") ELSE Goto("outdir")
        /\ UNCHANGED <<inp, condout, index, executed, usesGit>>

(* Context._ensure_output_dir_exists: mkdir(exist_ok=True) THEN is_dir().  mkdir raises FileExistsError for a non-directory *)
(* even with exist_ok, so OutputDirTaken is unreachable: the user gets a traceback (a finding, see X03)                     *)
OutDir == /\ pc = "outdir"
          /\ IF condout = "file" THEN Fail("Traceback:FileExistsError") /\ UNCHANGED condout
             ELSE Goto("config") /\ condout' = "dir"
          /\ UNCHANGED <<inp, index, executed, usesGit>>

(* ConfigFile.load_from_file parses; the VALUE of disable_git is only validated when it is first consulted *)
Config == /\ pc = "config"
          /\ IF inp.config = "unparsable" THEN Fail("ConfigParseError") ELSE Goto("index")
          /\ UNCHANGED <<inp, condout, index, executed, usesGit>>

(* VersionIndex.create_or_load: the index file exists from here on - also for invocations that end in a usage error *)
Index == /\ pc = "index" /\ index' = TRUE /\ Goto("flags")
         /\ UNCHANGED <<inp, condout, executed, usesGit>>

(* the answer Context.uses_git would compute now *)
UsesGitNow == IF inp.config = "gitoff" THEN "no" ELSE IF inp.git = "norepo" THEN "no" ELSE "yes"

(* validate_args *)
Flags == /\ pc = "flags"
         /\ IF inp.thisCommit /\ inp.atLeast # "none" THEN Fail("CannotSetBothCommitFlags") /\ UNCHANGED usesGit
            ELSE IF inp.again /\ ForCommit(inp) THEN Fail("CannotSetAgainAndCommit") /\ UNCHANGED usesGit
            ELSE IF ~ForCommit(inp) THEN Goto("ident") /\ UNCHANGED usesGit
            ELSE IF inp.config = "badvalue" THEN Fail("ConfigInvalidValue") /\ UNCHANGED usesGit
            ELSE /\ usesGit' = UsesGitNow
                 /\ IF UsesGitNow = "no" \/ inp.git = "empty" THEN Fail("CommitFlagUnsupported") ELSE Goto("ident")
         /\ UNCHANGED <<inp, condout, index, executed>>

(* TaskIdentifier.from_str *)
Ident == /\ pc = "ident"
         /\ IF inp.target = "malformed" THEN Fail("InvalidTaskIdentifier") ELSE Goto("load")
         /\ UNCHANGED <<inp, condout, index, executed, usesGit>>

(* task_index.load_transitive_closure *)
Load == /\ pc = "load"
        /\ CASE inp.target = "missing_cond" -> Fail("MissingCondFile")
             [] inp.target = "missing_task" -> Fail("TaskNotFound")
             [] inp.target = "bad_cond"     -> Fail("TaskSyntaxError")
             [] OTHER -> Goto("check")
        /\ UNCHANGED <<inp, condout, index, executed, usesGit>>

Check == /\ pc = "check"
         /\ IF inp.check THEN pc' = "done" /\ outcome' = "checked" ELSE Goto("commit")
         /\ UNCHANGED <<inp, condout, index, executed, usesGit>>

(* rev_parse("<symbol>^{commit}") and is_ancestor(HEAD, commit) *)
Commit == /\ pc = "commit"
          /\ IF ~ForCommit(inp) THEN Goto("plan")
             ELSE IF inp.atLeast = "bogus" THEN Fail("InvalidCommitSymbol")
             ELSE IF inp.atLeast = "other" THEN Fail("AtLeastCommitNotAncestor")
             ELSE Goto("plan")
          /\ UNCHANGED <<inp, condout, index, executed, usesGit>>

(* planning asks uses_git only for experiments (should_run / create_new_version): a run_command-only closure never does *)
Plan == /\ pc = "plan"
        /\ IF inp.target = "exp" /\ usesGit = "unknown"
           THEN IF inp.config = "badvalue" THEN Fail("ConfigInvalidValue") /\ UNCHANGED usesGit
                ELSE usesGit' = UsesGitNow /\ Goto("execute")
           ELSE Goto("execute") /\ UNCHANGED usesGit
        /\ UNCHANGED <<inp, condout, index, executed>>

Execute == /\ pc = "execute" /\ executed' = TRUE /\ pc' = "done" /\ outcome' = "ran"
           /\ UNCHANGED <<inp, condout, index, usesGit>>

Next == Jobs \/ Root \/ OutDir \/ Config \/ Index \/ Flags \/ Ident \/ Load \/ Check \/ Commit \/ Plan \/ Execute
        \/ (pc = "done" /\ UNCHANGED vars)
Spec == Init /\ [][Next]_vars /\ WF_vars(Next)

(***************************************************************************)
(* What a user relies on                                                   *)
(***************************************************************************)
Done == pc = "done"
IsError == outcome \notin {"none", "ran", "checked"}
(* an invocation that is refused has started no task *)
RefusedIsHarmless == IsError => ~executed
(* --check never starts a task *)
CheckIsDry == inp.check => ~executed
(* outside a project nothing is created *)
NoProjectNoTrace == inp.root = "none" => (condout = "absent" /\ ~index)
(* what does run satisfies every documented restriction on the flags *)
RanRespectsFlags == outcome = "ran" =>
    /\ ~(inp.thisCommit /\ inp.atLeast # "none")
    /\ ~(inp.again /\ ForCommit(inp))
    /\ inp.jobs \notin {"zero", "neg"}
    /\ (ForCommit(inp) => (inp.git = "ok" /\ inp.config = "ok" /\ inp.atLeast \in {"none", "HEAD", "ancestor", "anntag"}))
    /\ inp.target \in {"cmd", "exp"}
(* a commit flag is honoured or refused, never silently ignored: the only way past `flags` with one is a usable repository *)
CommitFlagNeverIgnored == (ForCommit(inp) /\ pc \in {"ident", "load", "check", "commit", "plan", "execute"}) => usesGit = "yes"
(* every internal error the model predicts (the one known: cond-out is a file) *)
NoTraceback == Done => outcome \notin {"Traceback:FileExistsError"}
(* every invocation ends *)
Terminates == <>Done

TypeOK == /\ pc \in {"jobs", "root", "outdir", "config", "index", "flags", "ident", "load", "check", "commit", "plan", "execute", "done"}
          /\ usesGit \in {"unknown", "yes", "no"} /\ condout \in CondOutV

Export == Done => PrintT(ToJson([inp |-> inp, outcome |-> outcome, condout |-> condout, index |-> index, executed |-> executed]))
=============================================================================
