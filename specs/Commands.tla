------------------------------ MODULE Commands ------------------------------
(***************************************************************************)
(* The front ends of `cond archive`, `cond restore` and `cond clean`: what  *)
(* one invocation decides, in the order of the code, and what it has done   *)
(* to the project by then (src/conductor/cli/archive.py::main +            *)
(* handle_output_path + compute_tasks_to_archive, cli/restore.py::main,    *)
(* cli/clean.py::main).  The bodies (what exactly is archived / restored)  *)
(* are Store.tla / StoreObs.tla (C11, C12); `cond run` is Invocation.tla   *)
(* (X03).  Part of the growth of the specification (DESIGN section 15,     *)
(* X05): every terminal state is exported and replayed as one real          *)
(* invocation.                                                             *)
(***************************************************************************)
EXTENDS Naturals, FiniteSets, TLC, Json

CmdV    == {"archive", "restore", "clean"}
RootV   == {"none", "here", "above"}
(* archive *)
OutV    == {"default", "existing_dir", "existing_file", "new_file", "missing_dir"}      \* -o
TaskV   == {"none", "exp_versions", "exp_fresh", "cmd_only", "malformed", "missing"}    \* the optional task argument
(* restore *)
FileV   == {"missing", "directory", "garbage", "valid", "recorded_already"}              \* the archive file argument
(* clean *)
AnswerV == {"y", "Y_blank", "n", "empty", "yes", "eof"}                                  \* what is typed at the prompt

VARIABLES inp, pc, outcome,
          condout,      \* "absent" | "dir"  (cond-out after the invocation)
          versions,     \* "none" | "kept" | "more"  (the recorded versions of the project, relative to before)
          archive,      \* BOOLEAN: an archive file has been produced at the requested place
          tmpindex      \* BOOLEAN: cond-out/version_index_archive.sqlite is lying around
vars == <<inp, pc, outcome, condout, versions, archive, tmpindex>>

Inputs ==      [cmd : {"archive"}, root : RootV, hasVersions : BOOLEAN, out : OutV, task : TaskV, latest : BOOLEAN]
          \cup [cmd : {"restore"}, root : RootV, hasVersions : BOOLEAN, file : FileV]
          \cup [cmd : {"clean"}, root : RootV, hasVersions : BOOLEAN, force : BOOLEAN, answer : AnswerV]

Init == /\ inp \in Inputs
        /\ (inp.cmd = "restore" /\ inp.file = "recorded_already") => inp.hasVersions
        /\ pc = "root" /\ outcome = "none"
        /\ condout = (IF inp.root # "none" /\ inp.hasVersions THEN "dir" ELSE "absent")
        /\ versions = (IF inp.root # "none" /\ inp.hasVersions THEN "kept" ELSE "none")
        /\ archive = FALSE /\ tmpindex = FALSE

Fail(e) == pc' = "done" /\ outcome' = e
Goto(p) == pc' = p /\ UNCHANGED outcome

(* Context.from_cwd: the project root; cond-out and the index file are created HERE, whatever the command goes on to do *)
Root == /\ pc = "root"
        /\ IF inp.root = "none" THEN Fail("MissingProjectRoot") /\ UNCHANGED condout
           ELSE Goto(inp.cmd) /\ condout' = "dir"
        /\ UNCHANGED <<inp, versions, archive, tmpindex>>

(* ---- cond archive ---- *)
(* handle_output_path: the default place (inside cond-out, named by the second) is never refused *)
ArchiveOut == /\ pc = "archive"
              /\ CASE inp.out = "existing_file" -> Fail("OutputFileExists")
                   [] inp.out = "missing_dir"   -> Fail("OutputPathDoesNotExist")
                   [] OTHER -> Goto("archive_task")
              /\ UNCHANGED <<inp, condout, versions, archive, tmpindex>>
(* compute_tasks_to_archive *)
ArchiveTask == /\ pc = "archive_task"
               /\ CASE inp.task = "malformed" -> Fail("InvalidTaskIdentifier")
                    [] inp.task = "missing"   -> Fail("TaskNotFound")
                    [] inp.task = "cmd_only"  -> Fail("NoTaskOutputsToArchive")     \* nothing archivable in the closure
                    [] OTHER -> Goto("archive_copy")
               /\ UNCHANGED <<inp, condout, versions, archive, tmpindex>>
(* the temporary index is created, filled - and removed again on every path (finally) *)
ArchiveCopy == /\ pc = "archive_copy"
               /\ tmpindex' = TRUE
               /\ IF ~inp.hasVersions \/ inp.task = "exp_fresh" THEN Goto("archive_cleanup_fail") ELSE Goto("archive_tar")
               /\ UNCHANGED <<inp, condout, versions, archive>>
ArchiveCleanupFail == /\ pc = "archive_cleanup_fail" /\ tmpindex' = FALSE /\ Fail("NoTaskOutputsToArchive")
                      /\ UNCHANGED <<inp, condout, versions, archive>>
ArchiveTar == /\ pc = "archive_tar" /\ archive' = TRUE /\ tmpindex' = FALSE /\ pc' = "done" /\ outcome' = "ok"
              /\ UNCHANGED <<inp, condout, versions>>

(* ---- cond restore ---- *)
RestoreFile == /\ pc = "restore"
               /\ CASE inp.file \in {"missing", "directory"} -> Fail("ArchiveFileInvalid") /\ UNCHANGED versions
                    [] inp.file = "garbage" -> Fail("ArchiveFileInvalid") /\ UNCHANGED versions         \* tar fails
                    [] inp.file = "recorded_already" -> Fail("DuplicateTaskOutput") /\ UNCHANGED versions
                    [] OTHER -> pc' = "done" /\ outcome' = "ok" /\ versions' = "more"
               /\ UNCHANGED <<inp, condout, archive, tmpindex>>

(* ---- cond clean ---- *)
Yes(a) == a \in {"y", "Y_blank"}            \* confirm.strip().lower() == "y"
Clean == /\ pc = "clean"
         /\ IF inp.force \/ Yes(inp.answer)
            THEN pc' = "done" /\ outcome' = "ok" /\ condout' = "absent" /\ versions' = "none"
            ELSE pc' = "done" /\ outcome' = "exit1" /\ UNCHANGED <<condout, versions>>
         /\ UNCHANGED <<inp, archive, tmpindex>>

Next == Root \/ ArchiveOut \/ ArchiveTask \/ ArchiveCopy \/ ArchiveCleanupFail \/ ArchiveTar \/ RestoreFile \/ Clean
        \/ (pc = "done" /\ UNCHANGED vars)
Spec == Init /\ [][Next]_vars /\ WF_vars(Next)

(***************************************************************************)
Done == pc = "done"
Refused == outcome \notin {"none", "ok"}
(* a refused command leaves the recorded versions as they were, and no archive *)
RefusedKeepsVersions == (Done /\ Refused) => (versions = (IF inp.root # "none" /\ inp.hasVersions THEN "kept" ELSE "none") /\ ~archive)
(* archive never changes the recorded versions, never leaves its temporary index behind *)
ArchiveReadOnly == (Done /\ inp.cmd = "archive") => (versions = (IF inp.root # "none" /\ inp.hasVersions THEN "kept" ELSE "none") /\ ~tmpindex)
(* an archive is produced exactly when there is something to archive and a place to put it *)
ArchiveIff == (Done /\ inp.cmd = "archive") =>
    (archive <=> (inp.root # "none" /\ inp.hasVersions /\ inp.out \in {"default", "existing_dir", "new_file"} /\ inp.task \in {"none", "exp_versions"}))
(* clean removes everything exactly when it was told to (-f, or "y" at the prompt), and nothing otherwise *)
CleanIff == (Done /\ inp.cmd = "clean" /\ inp.root # "none") => ((condout = "absent") <=> (inp.force \/ Yes(inp.answer)))
(* outside a project nothing is created *)
NoProjectNoTrace == inp.root = "none" => (condout = "absent" /\ ~archive /\ ~tmpindex)
Terminates == <>Done

Export == Done => PrintT(ToJson([inp |-> inp, outcome |-> outcome, condout |-> condout, versions |-> versions, archive |-> archive, tmpindex |-> tmpindex]))
=============================================================================
