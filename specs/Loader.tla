------------------------------- MODULE Loader -------------------------------
(* LoaderCore (declarative verdicts + the two DFS algorithms) checked on every graph and target. *)
EXTENDS LoaderCore

(***************************************************************************)
(* every graph, every target                                               *)
(***************************************************************************)
VARIABLES dg, tgt
lvars == <<dg, tgt>>
Init == dg \in [Def -> DepLists] /\ tgt \in Def
Next == FALSE /\ UNCHANGED lvars
Spec == Init /\ [][Next]_lvars

RunSound == LoadResult(dg, tgt) \in Verdicts(dg, tgt)
(* only defined for lists without repetition (materialisation rejects the others before validation) *)
ProjectSound ==
    (\A t \in Def : NoDup(dg[t])) =>
        LET r == ValidateResult(dg)
        IN IF ProjectBad(dg) THEN r.res \in {"cycle", "notfound"}
           ELSE r.res = "ok" /\ r.roots = Roots(dg)

Export == PrintT(ToJson([d |-> dg, t |-> tgt, verdicts |-> Verdicts(dg, tgt), model |-> LoadResult(dg, tgt),
                         bad |-> ProjectBad(dg), roots |-> Roots(dg)]))
=============================================================================
