------------------------------ MODULE Explorer ------------------------------
(***************************************************************************)
(* The read-only views of `cond explorer` (src/conductor/explorer/routes.py)*)
(* as projections of the abstract state the other modules talk about:      *)
(*   /api/1/task_graph           the task graph of ALL git-tracked COND    *)
(*                               files (TaskIndex.load_all_known_tasks +   *)
(*                               validate_all_loaded_tasks): every task    *)
(*                               with its type and declared dependencies,  *)
(*                               and the ROOT tasks (no dependees)         *)
(*   /api/1/results/all_versions the recorded versions (StoreObs' rows),   *)
(*                               grouped by task                           *)
(* No listed property speaks about the explorer; this module is part of    *)
(* the growth of the specification (DESIGN section 15, X04).               *)
(*                                                                         *)
(* The graph validation here differs from C14's (Loader.tla): it is over   *)
(* the WHOLE project, not the closure of a target - a cycle or an          *)
(* undefined dependency ANYWHERE refuses the view.                         *)
(***************************************************************************)
EXTENDS Naturals, FiniteSets, TLC, Json

CONSTANT N                     \* tasks 1..N; 0 stands for an identifier nobody defines
Tasks == 1..N
Undefined == 0

VARIABLE deps                  \* the project: task -> set of declared dependencies
Init == deps \in [Tasks -> SUBSET (Tasks \cup {Undefined})]
Next == UNCHANGED deps
Spec == Init /\ [][Next]_deps

(* reachability by one or more edges, within the defined tasks *)
RECURSIVE ReachFrom(_, _)
ReachFrom(front, seen) ==
    LET nxt == (UNION {deps[t] : t \in front \cap Tasks}) \ seen
    IN IF nxt = {} THEN seen ELSE ReachFrom(nxt, seen \cup nxt)
ReachPlus(t) == ReachFrom({t}, {})          \* what t transitively depends on (t itself only through a cycle)
ReachStar(t) == ReachPlus(t) \cup {t}

HasUndefined == \E t \in Tasks : Undefined \in deps[t]
HasCycle == \E t \in Tasks : t \in ReachPlus(t)

(* what the view answers: the code reports whichever problem its traversal meets first, so both are allowed when both exist *)
Verdicts == IF HasUndefined /\ HasCycle THEN {"TaskNotFound", "CyclicDependency"}
            ELSE IF HasUndefined THEN {"TaskNotFound"}
            ELSE IF HasCycle THEN {"CyclicDependency"}
            ELSE {"ok"}

Roots == {t \in Tasks : \A u \in Tasks : t \notin deps[u]}

(***************************************************************************)
(* What makes the root list useful to a user (checked over ALL graphs)     *)
(***************************************************************************)
(* an accepted project has a root, and every task is found under some root: the roots are entry points for everything *)
EveryTaskUnderARoot == Verdicts = {"ok"} => \A t \in Tasks : \E r \in Roots : t \in ReachStar(r)
(* no root is hidden under another task *)
RootsAreTop == \A r \in Roots : \A t \in Tasks : r \notin ReachPlus(t)
(* a project without roots has a cycle (or is empty) *)
NoRootMeansCycle == (Roots = {} /\ N > 0) => HasCycle

Export == PrintT(ToJson([deps |-> [t \in Tasks |-> deps[t]], verdicts |-> Verdicts, roots |-> Roots]))
=============================================================================
