CONSTANT N = 3
CONSTANT Kinds = {"exp", "group"}
CONSTANT Modes = {"default"}
CONSTANT FixedD1 = TRUE
CONSTANT MaxJobs = 2
CONSTANT StopModes = {FALSE}
CONSTANT ExitCodes = {0, 1}
CONSTANT LaunchFail = FALSE
CONSTANT SecondReaper = FALSE
CONSTANT WakeupFd = TRUE
CONSTANT JobControl = FALSE
CONSTANT AllowAbort = TRUE
SPECIFICATION Spec
INVARIANT C01
INVARIANT C03
INVARIANT C04
INVARIANT C09
INVARIANT C16
INVARIANT C16Rows
INVARIANT PipeMatchesList
PROPERTY Terminates
CHECK_DEADLOCK TRUE
