---------------------------- MODULE RunObs_Trace ----------------------------
(* Judges batches of traces recorded from the real `cond run` (harness back-ends B1/B2)
   against the observable contract RunObs.  One initial state per trace; every event is
   consumed; the verdict (set of violated clause names) is printed per trace. *)
EXTENDS RunObs, Json, IOUtils, TLCExt

Traces == ndJsonDeserialize(IOEnv.TRACE_FILE)

VARIABLES tid, l, m, fin
tvars == <<tid, l, m, fin>>

T == Traces[tid]
C == T.cfg
Ev == T.events[l]
SetOf(s) == {s[i] : i \in 1..Len(s)}

TInit == /\ tid \in 1..Len(Traces) /\ l = 1 /\ m = MonInit /\ fin = FALSE

Apply ==
    CASE Ev.e = "Cached"   -> OnCachedLine(C, m, Ev.t)
      [] Ev.e = "Running"  -> OnRunningLine(C, m, Ev.t, Ev.k, Ev.n)
      [] Ev.e = "Skipping" -> OnSkippingLine(C, m, Ev.t, Ev.k, Ev.n)
      [] Ev.e = "Spawn"    -> OnSpawn(C, OnSpawnEnv(C, m, Ev.t, Ev), Ev.t, Ev.slot, Ev.ts)
      [] Ev.e = "Lib"      -> OnLib(C, m, Ev)
      [] Ev.e = "SpawnFail"-> OnSpawnFail(C, m, Ev.t)
      [] Ev.e = "Exit"     -> OnExit(C, m, Ev.t, Ev.st)
      [] Ev.e = "Success"  -> OnSuccessLine(C, m, Ev.t)
      [] Ev.e = "Failed"   -> OnFailedLine(C, m, Ev.t, Ev.syncfail)
      [] Ev.e = "Kill"     -> OnKill(C, m, Ev.t, Ev.sig, Ev.foreign, Ev.grp)
      [] Ev.e = "Abort"    -> OnAbort(C, m, SetOf(Ev.live))
      [] Ev.e = "Row"      -> OnRow(C, m, Ev.t, Ev.ts)
      [] Ev.e = "Return"   -> OnReturn(C, m, Ev.exit, Ev.hang, Ev.stderr, SetOf(Ev.failed), SetOf(Ev.skipped),
                                        SetOf(Ev.newrows), Ev.aborted)
      [] OTHER -> m

Step == /\ ~fin /\ l <= Len(T.events)
        /\ m' = Apply /\ l' = l + 1 /\ UNCHANGED <<tid, fin>>

Finish == /\ ~fin /\ l = Len(T.events) + 1 /\ fin' = TRUE
          /\ PrintT(ToJson([id |-> T.id, viol |-> m.viol, n |-> Len(T.events)]))
          /\ UNCHANGED <<tid, l, m>>

TNext == Step \/ Finish
TSpec == TInit /\ [][TNext]_tvars
=============================================================================
