CONSTANT Runs = {1, 2}
CONSTANT WithGc = TRUE
CONSTANT Clocks = {100, 101, 105}
SPECIFICATION TSpec
POSTCONDITION Verdicts
CHECK_DEADLOCK FALSE
