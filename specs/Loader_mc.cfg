CONSTANT ND = 3
CONSTANT MaxLen = 2
CONSTANT Dups = TRUE
SPECIFICATION Spec
INVARIANT RunSound
INVARIANT ProjectSound
CHECK_DEADLOCK FALSE
