CONSTANT N = 6
CONSTANT Kinds = {"exp", "cmd", "group", "combine"}
CONSTANT Modes = {"default"}
CONSTANT FixedD1 = TRUE
CONSTANT MaxJobs = 4
CONSTANT StopModes = {FALSE}
CONSTANT ExitCodes = {0, 1}
CONSTANT LaunchFail = TRUE
CONSTANT SecondReaper = FALSE
CONSTANT WakeupFd = TRUE
CONSTANT JobControl = TRUE
CONSTANT AllowAbort = FALSE
SPECIFICATION TSpec
POSTCONDITION Verdicts
CHECK_DEADLOCK FALSE
