CONSTANT Exps = {1}
CONSTANT MaxClock = 3
CONSTANT MaxCmds = 4
CONSTANT FixedD2 = TRUE
CONSTANT FixedD10 = TRUE
SPECIFICATION Spec
INVARIANT C06
INVARIANT C08
INVARIANT C11
INVARIANT C12
INVARIANT C13
INVARIANT IndexNeverOutlivesData
PROPERTY FailedRestoreKeepsIndex
CHECK_DEADLOCK FALSE
