--------------------------- MODULE StoreObs_Trace ---------------------------
(* Judges histories of real commands: each step carries the abstract store state projected from disk before and
   after the command (harness/clirunner.py: project_store), the command, its exit status and command-specific
   observations.  One initial state per history; the verdict is the set of <<step, clause>> pairs. *)
EXTENDS StoreObs, Json, IOUtils, TLCExt

Hist == ndJsonDeserialize(IOEnv.TRACE_FILE)

VARIABLES hid, l, viol, fin
hvars == <<hid, l, viol, fin>>

H == Hist[hid]
E == H.steps[l]

HInit == /\ hid \in 1..Len(Hist) /\ l = 1 /\ viol = {} /\ fin = FALSE

Clauses ==
    LET B == St(E.before)
        A == St(E.after)
        cmd == E.cmd
        Sel(x) == [all |-> x.all, latest |-> x.latest, expectFail |-> x.expectFail,
                   idset |-> IF x.all \/ x.task = 0 THEN {} ELSE ClosureIds(H.graph, x.task)]
        common == StateClauses(A) \cup (IF l = 1 THEN StateClauses(B) ELSE {})
        spec ==
          CASE cmd = "run"     -> RunClauses(B, A, SetOf(E.spawns), E.head, E.dirty, E.crashed)
            [] cmd = "gc"      -> GcClauses(B, A, E.exit, E.crashed)
            [] cmd = "gcdry"   -> GcDryClauses(B, A, E.exit, SetOf(E.listed))
            [] cmd = "archive" -> ArchiveClauses(B, A, E.exit, Sel(E.sel), SetOf(E.arows), SetOf(E.members))
            [] cmd = "restore" -> RestoreClauses(B, A, E.exit, E.crashed, [rows |-> SetOf(E.arch.rows), members |-> SetOf(E.arch.members), defect |-> E.arch.defect])
            [] cmd = "roundtrip" -> RoundTripClauses(B, A, Sel(E.sel))
            [] cmd = "cwdpair" -> CwdClauses([exit |-> E.refExit, after |-> St(E.refAfter), locs |-> SetOf(E.refLocs)],
                                             [exit |-> E.exit, after |-> A, locs |-> SetOf(E.locs)])
            [] cmd = "combine" -> CombineClauses(E.exit, SetOf(E.links), SetOf(E.deps), E.conflict, E.entryUnchanged)
            [] cmd = "nested"  -> NestedClauses(B, A)
            [] cmd = "clean"   -> CleanClauses(B, A)
            [] cmd = "where"   -> WhereClauses(B, A)
            [] OTHER -> {}
    IN common \cup spec

Step == /\ ~fin /\ l <= Len(H.steps)
        /\ viol' = viol \cup {<<l, c>> : c \in Clauses}
        /\ l' = l + 1 /\ UNCHANGED <<hid, fin>>
Finish == /\ ~fin /\ l = Len(H.steps) + 1 /\ fin' = TRUE
          /\ PrintT(ToJson([id |-> H.id, viol |-> viol, n |-> Len(H.steps)]))
          /\ UNCHANGED <<hid, l, viol>>
HNext == Step \/ Finish
HSpec == HInit /\ [][HNext]_hvars
=============================================================================
