---------------------------- MODULE Loader_Trace ----------------------------
(* Judges what the real code reported for each (graph, target) instance against Loader's declarative half. *)
EXTENDS LoaderCore, IOUtils, TLCExt

Rows == ndJsonDeserialize(IOEnv.TRACE_FILE)
VARIABLE i
D(r) == [t \in Def |-> r.d[t]]
Clauses(r) ==
    (IF r.run \in Verdicts(D(r), r.t) THEN {} ELSE {"RunSound"})
    \cup (IF r.check = r.run THEN {} ELSE {"CheckAgreesWithRun"})
    \cup (IF r.spawnsOnError = 0 THEN {} ELSE {"NothingRunsOnError"})
    \cup (IF ~r.hasProj THEN {}
          ELSE IF ProjectBad(D(r)) THEN (IF r.proj \in {"cycle", "notfound"} THEN {} ELSE {"ProjectRejectsBad"})
          ELSE (IF r.proj = "ok" /\ RangeS(r.roots) = Roots(D(r)) THEN {} ELSE {"ProjectRootsExact"}))
TInit == i \in 1..Len(Rows)
TNext == FALSE /\ UNCHANGED i
TSpec == TInit /\ [][TNext]_i
Judge == LET r == Rows[i] IN
         PrintT(ToJson([id |-> r.id, viol |-> Clauses(r), model |-> LoadResult(D(r), r.t)]))
=============================================================================
