CONSTANT NRows = 2
CONSTANT MaxCrashes = 3
CONSTANT CheckTmpTable = TRUE
CONSTANT AtomicBackup = TRUE
SPECIFICATION Spec
INVARIANT NoVersionLost
INVARIANT MigratedExactly
INVARIANT BackupFaithful
INVARIANT Resumable
PROPERTY EventuallyMigrated
CHECK_DEADLOCK TRUE
