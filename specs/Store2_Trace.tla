---------------------------- MODULE Store2_Trace ----------------------------
(***************************************************************************)
(* Controlled-concurrency executions of the real `cond run` / `cond gc`    *)
(* on one project (the controller holds each invocation at its mkdir of a  *)
(* version directory, at the task's write, at gc's first deletion) must be *)
(* behaviours of Store2.tla.  Events carry what was observed: the version  *)
(* chosen (from COND_OUT), the outcome of the recording, what gc deleted;  *)
(* the last event is the final on-disk state (recorded versions,           *)
(* directories and which invocations' payload files each holds).           *)
(* Trace (ndjson): [id, runs, clocks, gc, events] ; events:                *)
(*   Plan i ts | Mkdir i | Write i ok | Record i outcome | GcScan |        *)
(*   GcDelete v | Final rows dirs                                          *)
(***************************************************************************)
EXTENDS Store2, Json, IOUtils, TLCExt, Sequences

Traces == ndJsonDeserialize(IOEnv.TRACE_FILE)
VARIABLES tid, l
tvars == <<vars, tid, l>>
T == Traces[tid]
Ev == T.events[l]
Has1 == l <= Len(T.events)
SetOf(s) == {s[k] : k \in 1..Len(s)}

TInit == tid \in 1..Len(Traces) /\ l = 1 /\ Init /\ TLCSet(tid, 1)
Consume == l' = l + 1 /\ TLCSet(tid, IF l + 1 > TLCGet(tid) THEN l + 1 ELSE TLCGet(tid))

TOpen == \E i \in Runs : Open(i) /\ UNCHANGED l                     \* not observable from outside
TPlan == Has1 /\ Ev.e = "Plan" /\ Plan(Ev.i) /\ ver'[Ev.i] = Ev.ts /\ Consume
TMkdir == Has1 /\ Ev.e = "Mkdir" /\ Mkdir(Ev.i) /\ Consume
TWrite == Has1 /\ Ev.e = "Write" /\ Write(Ev.i) /\ (Ev.ok <=> rpc'[Ev.i] = "record") /\ Consume
TRecord == Has1 /\ Ev.e = "Record" /\ Record(Ev.i) /\ outcome'[Ev.i] = Ev.outcome /\ Consume
TGcScan == Has1 /\ Ev.e = "GcScan" /\ GcScan /\ Consume
TGcDelete == Has1 /\ Ev.e = "GcDelete" /\ GcDelete /\ Ev.v \in victims /\ Ev.v \notin DOMAIN dirs' /\ Consume
TGcEnd == GcDelete /\ victims = {} /\ UNCHANGED l
(* N.B. Consume last: TLCSet is a side effect and must only happen when every other conjunct holds *)
TFinal == /\ Has1 /\ Ev.e = "Final" /\ UNCHANGED vars
          /\ rows = SetOf(Ev.rows)
          /\ DOMAIN dirs = {d[1] : d \in SetOf(Ev.dirs)}
          /\ \A d \in SetOf(Ev.dirs) : dirs[d[1]] = SetOf(d[2])
          /\ Consume
TNext == (TOpen \/ TPlan \/ TMkdir \/ TWrite \/ TRecord \/ TGcScan \/ TGcDelete \/ TGcEnd \/ TFinal) /\ UNCHANGED tid
TSpec == TInit /\ [][TNext]_tvars

Verdicts == \A i \in 1..Len(Traces) : PrintT(ToJson([id |-> Traces[i].id, reached |-> TLCGet(i) - 1, n |-> Len(Traces[i].events)]))
=============================================================================
