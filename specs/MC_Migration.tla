---------------------------- MODULE MC_Migration ----------------------------
(***************************************************************************)
(* Apalache wrapper for Migration.tla: an INDUCTIVE invariant showing that *)
(* no recorded version is ever lost by the v1 -> v2 migration, for any     *)
(* number of kills and restarts (TLC checks the same for <= 3 kills).      *)
(*   apalache-mc check --init=IndInit --inv=IndInv --length=1 MC_Migration.tla   (inductive step)   *)
(*   apalache-mc check --init=Init --inv=IndInv --length=0 MC_Migration.tla      (base case)        *)
(*   IndInv => NoVersionLost is immediate (first two conjuncts).                                     *)
(***************************************************************************)
EXTENDS Naturals, FiniteSets, Apalache

NRows == 2
MaxCrashes == 1000000
CheckTmpTable == TRUE
AtomicBackup == TRUE

VARIABLES
    \* @type: { fmt: Int, tabs: Str -> Set(Int) };
    D,
    \* @type: { fmt: Int, tabs: Str -> Set(Int) };
    W,
    \* @type: Bool;
    inTxn,
    \* @type: Str;
    backup,
    \* @type: Str;
    pc,
    \* @type: Int;
    crashes,
    \* @type: Str;
    outcome

INSTANCE Migration

Durable1 == D.fmt = 1 /\ "old" \in DOMAIN D.tabs /\ D.tabs["old"] = Orig /\ DOMAIN D.tabs \subseteq {"old", "new"}
                      /\ ("new" \in DOMAIN D.tabs => D.tabs["new"] = {})
Durable2 == D.fmt = 2 /\ DOMAIN D.tabs = {"cur"} /\ D.tabs["cur"] = Orig

PCs == {"open", "backup_check", "copy", "copy_rest", "create", "insert", "drop", "rename", "pragma", "commit", "load", "done"}

IndInv ==
    /\ Durable1 \/ Durable2
    /\ pc \in PCs /\ backup \in {"absent", "torn", "full"} /\ outcome \in {"none", "ok", "error", "killed"}
    /\ crashes >= 0 /\ crashes <= MaxCrashes
    /\ (~inTxn) => W = D
    /\ inTxn <=> pc \in {"drop", "rename", "pragma", "commit"}
    /\ pc \in {"backup_check", "copy", "copy_rest", "create", "insert", "drop", "rename", "pragma", "commit"} => Durable1
    /\ pc = "insert" => "new" \in DOMAIN W.tabs
    /\ pc = "drop" => (W.fmt = 1 /\ DOMAIN W.tabs = {"old", "new"} /\ W.tabs["old"] = Orig /\ W.tabs["new"] = Orig)
    /\ pc = "rename" => (W.fmt = 1 /\ DOMAIN W.tabs = {"new"} /\ W.tabs["new"] = Orig)
    /\ pc = "pragma" => (W.fmt = 1 /\ DOMAIN W.tabs = {"cur"} /\ W.tabs["cur"] = Orig)
    /\ pc = "commit" => (W.fmt = 2 /\ DOMAIN W.tabs = {"cur"} /\ W.tabs["cur"] = Orig)
    /\ pc = "load" => ~inTxn

\* all states satisfying the invariant (Apalache generates them symbolically)
IndInit ==
    /\ D = Gen(3)
    /\ W = Gen(3)
    /\ inTxn \in BOOLEAN
    /\ backup \in {"absent", "torn", "full"}
    /\ pc \in PCs
    /\ crashes \in 0..10
    /\ outcome \in {"none", "ok", "error", "killed"}
    /\ IndInv
=============================================================================
