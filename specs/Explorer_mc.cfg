CONSTANT N = 4
SPECIFICATION Spec
INVARIANT EveryTaskUnderARoot
INVARIANT RootsAreTop
INVARIANT NoRootMeansCycle
CHECK_DEADLOCK FALSE
