SPECIFICATION Spec
INVARIANT Sane
CHECK_DEADLOCK FALSE
