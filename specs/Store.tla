-------------------------------- MODULE Store --------------------------------
(***************************************************************************)
(* Implementation-shaped model of the version store and the commands that  *)
(* touch it, one action per externally visible effect, with Crash enabled  *)
(* at every step of every command:                                         *)
(*   cond run     execution/version_index.py (generate_new_output_version, *)
(*                insert/commit), task_types/run.py (create_new_version),  *)
(*                ops/run_task_executable.py (mkdir, finish_execution)     *)
(*   cond restore cli/restore.py                                           *)
(*   cond archive cli/archive.py                                           *)
(*   cond gc      cli/gc.py                                                *)
(* Every completed or crashed command is judged by the StoreObs clauses    *)
(* (the same ones that judge projections of the real cond-out).           *)
(***************************************************************************)
EXTENDS Naturals, Integers, Sequences, FiniteSets, TLC

CONSTANTS Exps,        \* experiment tasks, e.g. {1, 2}
          MaxClock,    \* wall clock ranges over 1..MaxClock (may stutter and step back)
          MaxCmds,     \* commands per history
          FixedD2,     \* TRUE: a new version skips identifiers whose directory already exists
          FixedD10     \* TRUE: restore clears a stale staging directory before extracting

SO == INSTANCE StoreObs

VARIABLES clock,
          index,     \* committed rows: set of <<t, ts>>  (commit/dirty are carried as 0: not modelled here)
          txn,       \* uncommitted rows of the running command's sqlite connection
          dirs,      \* <<t, ts>> -> [complete, leftover]   (existing version directories)
          staging,   \* cond-out/archive-tmp: [present, hasIndex, rows, dirs]
          archs,     \* archive files: set of [rows, members, hasIndex]
          inv,       \* the running invocation (record with cmd, pc, ...), or Idle
          snap,      \* abstract state when the invocation started
          n,         \* commands so far
          viol       \* StoreObs clauses broken so far

vars == <<clock, index, txn, dirs, staging, archs, inv, snap, n, viol>>

Idle == [cmd |-> "idle"]
NoStage == [present |-> FALSE, hasIndex |-> FALSE, rows |-> {}, dirs |-> {}]
Keys == Exps \X (1..(MaxClock + MaxCmds + 2))
Exists(k) == k \in DOMAIN dirs
PutDir(k, r) == [x \in DOMAIN dirs \cup {k} |-> IF x = k THEN r ELSE dirs[x]]
DelDirs(K) == [x \in DOMAIN dirs \ K |-> dirs[x]]
MaxOf(S) == IF S = {} THEN 0 ELSE CHOOSE x \in S : \A y \in S : y <= x
Key2(s) == <<s[1], s[2]>>

(* abstract state in StoreObs's vocabulary (sets already; digest = 500 + ts marks leaked leftovers) *)
Abs == [rows |-> {<<k[1], k[2], 0, 0>> : k \in index},
        vdirs |-> {<<k[1], k[2], IF dirs[k].leftover THEN 500 + k[2] ELSE k[2], IF dirs[k].complete THEN 1 ELSE 0>> :
                      k \in DOMAIN dirs},
        tdirs |-> {}, misc |-> 0, outside |-> 0]

(* an archive made in another copy of the project (its version ids are unrelated to this project's clock) *)
Foreign == LET e == CHOOSE x \in Exps : TRUE IN
           {[rows |-> {<<e, MaxClock + 2>>}, members |-> {<<e, MaxClock + 2>>}, hasIndex |-> TRUE]}

Init == /\ clock = 1 /\ index = {} /\ txn = {} /\ dirs = [x \in {} |-> 0] /\ staging = NoStage /\ archs = Foreign
        /\ inv = Idle /\ snap = Abs /\ n = 0 /\ viol = {}

Begin(rec) == /\ inv.cmd = "idle" /\ n < MaxCmds /\ n' = n + 1 /\ inv' = rec /\ snap' = Abs /\ txn' = {}

(***************************************************************************)
(* environment                                                             *)
(***************************************************************************)
Tick == /\ inv.cmd = "idle" /\ clock < MaxClock /\ clock' = clock + 1
        /\ UNCHANGED <<index, txn, dirs, staging, archs, inv, snap, n, viol>>
StepBack == /\ inv.cmd = "idle" /\ clock > 1 /\ clock' = clock - 1
            /\ UNCHANGED <<index, txn, dirs, staging, archs, inv, snap, n, viol>>

(***************************************************************************)
(* cond run T --again   (T: the experiments in the closure, lowered in order) *)
(***************************************************************************)
RunBegin(T) ==
    /\ Begin([cmd |-> "run", pc |-> "alloc", todo |-> T, plan |-> <<>>, last |-> MaxOf({k[2] : k \in index}),
              i |-> 1, spawns |-> {}])
    /\ UNCHANGED <<clock, index, dirs, staging, archs, viol>>

(* planning: generate_new_output_version for the next experiment *)
NextTs(last) == IF clock = last THEN clock + 1 ELSE IF clock < last THEN last + 1 ELSE clock
RECURSIVE SkipExisting(_, _)
SkipExisting(t, ts) == IF FixedD2 /\ Exists(<<t, ts>>) THEN SkipExisting(t, IF clock = ts THEN clock + 1 ELSE IF clock < ts THEN ts + 1 ELSE clock)
                       ELSE ts
RunAlloc ==
    /\ inv.cmd = "run" /\ inv.pc = "alloc" /\ inv.todo # <<>>
    /\ LET t == Head(inv.todo)
           ts == SkipExisting(t, NextTs(inv.last))
       IN inv' = [inv EXCEPT !.todo = Tail(@), !.plan = Append(@, <<t, ts>>), !.last = ts]
    /\ UNCHANGED <<clock, index, txn, dirs, staging, archs, snap, n, viol>>
RunPlanned ==
    /\ inv.cmd = "run" /\ inv.pc = "alloc" /\ inv.todo = <<>>
    /\ inv' = [inv EXCEPT !.pc = "mkdir"]
    /\ UNCHANGED <<clock, index, txn, dirs, staging, archs, snap, n, viol>>

Cur == inv.plan[inv.i]
(* start_execution: mkdir(parents=True, exist_ok=True) then the child starts *)
RunMkdir ==
    /\ inv.cmd = "run" /\ inv.pc = "mkdir" /\ inv.i <= Len(inv.plan)
    /\ dirs' = IF Exists(Cur) THEN [dirs EXCEPT ![Cur].leftover = TRUE, ![Cur].complete = FALSE]
               ELSE PutDir(Cur, [complete |-> FALSE, leftover |-> FALSE])
    /\ inv' = [inv EXCEPT !.pc = "child",
                          !.spawns = @ \cup {<<Cur[1], Cur[2], IF Exists(Cur) THEN 1 ELSE 0, IF Exists(Cur) THEN 0 ELSE 1, 1>>}]
    /\ UNCHANGED <<clock, index, txn, staging, archs, snap, n, viol>>
RunDone ==
    /\ inv.cmd = "run" /\ inv.pc = "mkdir" /\ inv.i > Len(inv.plan)
    /\ inv' = [inv EXCEPT !.pc = "end"]
    /\ UNCHANGED <<clock, index, txn, dirs, staging, archs, snap, n, viol>>
ChildOk ==
    /\ inv.cmd = "run" /\ inv.pc = "child"
    /\ dirs' = [dirs EXCEPT ![Cur].complete = TRUE]        \* the task wrote its output and exited 0; tee joined
    /\ inv' = [inv EXCEPT !.pc = "insert", !.spawns = {IF Key2(s) = Cur THEN <<s[1], s[2], s[3], s[4], 0>> ELSE s : s \in @}]
    /\ UNCHANGED <<clock, index, txn, staging, archs, snap, n, viol>>
ChildFail ==      \* non-zero exit: nothing is recorded; later operations depending on it are skipped (all of them here)
    /\ inv.cmd = "run" /\ inv.pc = "child"
    /\ inv' = [inv EXCEPT !.pc = "end", !.spawns = {IF Key2(s) = Cur THEN <<s[1], s[2], s[3], s[4], 1>> ELSE s : s \in @}]
    /\ UNCHANGED <<clock, index, txn, dirs, staging, archs, snap, n, viol>>
RunInsert ==
    /\ inv.cmd = "run" /\ inv.pc = "insert" /\ txn' = txn \cup {Cur}
    /\ inv' = [inv EXCEPT !.pc = "commit"]
    /\ UNCHANGED <<clock, index, dirs, staging, archs, snap, n, viol>>
RunCommit ==
    /\ inv.cmd = "run" /\ inv.pc = "commit" /\ index' = index \cup txn /\ txn' = {}
    /\ inv' = [inv EXCEPT !.pc = "mkdir", !.i = @ + 1]
    /\ UNCHANGED <<clock, dirs, staging, archs, snap, n, viol>>

(***************************************************************************)
(* cond archive (all versions)                                             *)
(***************************************************************************)
ArchiveBegin ==
    /\ Begin([cmd |-> "archive", pc |-> "tar"])
    /\ UNCHANGED <<clock, index, dirs, staging, archs, viol>>
ArchiveTar ==     \* tar fails when a listed directory is missing (then no archive is left behind)
    /\ inv.cmd = "archive" /\ inv.pc = "tar"
    /\ archs' = IF index # {} /\ \A k \in index : Exists(k)
                THEN archs \cup {[rows |-> index, members |-> index, hasIndex |-> TRUE]} ELSE archs
    /\ inv' = [inv EXCEPT !.pc = "end"]
    /\ UNCHANGED <<clock, index, txn, dirs, staging, snap, n, viol>>
(* damage done to an archive file outside Conductor *)
Damage ==
    /\ inv.cmd = "idle" /\ \E a \in archs : \E b \in {[a EXCEPT !.hasIndex = FALSE]} \cup
                                                     {[a EXCEPT !.members = @ \ {k}] : k \in a.members} :
          archs' = archs \cup {b}
    /\ Cardinality(archs) < 4
    /\ UNCHANGED <<clock, index, txn, dirs, staging, inv, snap, n, viol>>

(***************************************************************************)
(* cond restore a                                                          *)
(***************************************************************************)
RestoreBegin(a) ==
    /\ Begin([cmd |-> "restore", pc |-> "stage", a |-> a, todo |-> {}, ok |-> FALSE])
    /\ UNCHANGED <<clock, index, dirs, staging, archs, viol>>
RestoreStage ==   \* staging_path.mkdir(exist_ok=True): stale content of a crashed restore survives (unless FixedD10)
    /\ inv.cmd = "restore" /\ inv.pc = "stage"
    /\ staging' = IF FixedD10 THEN [NoStage EXCEPT !.present = TRUE] ELSE [staging EXCEPT !.present = TRUE]
    /\ inv' = [inv EXCEPT !.pc = "extract"]
    /\ UNCHANGED <<clock, index, txn, dirs, archs, snap, n, viol>>
RestoreExtract == \* tar xzf overlays the staging directory
    /\ inv.cmd = "restore" /\ inv.pc = "extract"
    /\ staging' = [present |-> TRUE, hasIndex |-> staging.hasIndex \/ inv.a.hasIndex,
                   rows |-> IF inv.a.hasIndex THEN inv.a.rows ELSE staging.rows,
                   dirs |-> staging.dirs \cup inv.a.members]
    /\ inv' = [inv EXCEPT !.pc = "load"]
    /\ UNCHANGED <<clock, index, txn, dirs, archs, snap, n, viol>>
RFail == [inv EXCEPT !.pc = "rollback"]
RestoreLoad ==    \* index presence check + bulk insert into one uncommitted transaction (PK conflict aborts)
    /\ inv.cmd = "restore" /\ inv.pc = "load"
    /\ IF ~staging.hasIndex \/ staging.rows \cap index # {}
       THEN inv' = RFail /\ UNCHANGED txn
       ELSE txn' = staging.rows /\ inv' = [inv EXCEPT !.pc = "copy", !.todo = staging.rows]
    /\ UNCHANGED <<clock, index, dirs, staging, archs, snap, n, viol>>
RestoreCopy ==    \* per row: source must be a directory, copytree refuses an existing destination
    /\ inv.cmd = "restore" /\ inv.pc = "copy"
    /\ IF inv.todo = {} THEN inv' = [inv EXCEPT !.pc = "rcommit"] /\ UNCHANGED dirs
       ELSE \E k \in inv.todo :
              IF k \notin staging.dirs \/ Exists(k) THEN inv' = RFail /\ UNCHANGED dirs
              ELSE dirs' = PutDir(k, [complete |-> TRUE, leftover |-> FALSE]) /\ inv' = [inv EXCEPT !.todo = @ \ {k}]
    /\ UNCHANGED <<clock, index, txn, staging, archs, snap, n, viol>>
RestoreCommit ==
    /\ inv.cmd = "restore" /\ inv.pc = "rcommit" /\ index' = index \cup txn /\ txn' = {}
    /\ inv' = [inv EXCEPT !.pc = "cleanup", !.ok = TRUE]
    /\ UNCHANGED <<clock, dirs, staging, archs, snap, n, viol>>
RestoreRollback ==
    /\ inv.cmd = "restore" /\ inv.pc = "rollback" /\ txn' = {}
    /\ inv' = [inv EXCEPT !.pc = "cleanup"]
    /\ UNCHANGED <<clock, index, dirs, staging, archs, snap, n, viol>>
RestoreCleanup == \* finally: rmtree(staging)
    /\ inv.cmd = "restore" /\ inv.pc = "cleanup" /\ staging' = NoStage
    /\ inv' = [inv EXCEPT !.pc = "end"]
    /\ UNCHANGED <<clock, index, txn, dirs, archs, snap, n, viol>>

(***************************************************************************)
(* cond gc                                                                 *)
(***************************************************************************)
GcBegin ==
    /\ Begin([cmd |-> "gc", pc |-> "scan", del |-> {}])
    /\ UNCHANGED <<clock, index, dirs, staging, archs, viol>>
GcScan ==
    /\ inv.cmd = "gc" /\ inv.pc = "scan"
    /\ inv' = [inv EXCEPT !.pc = "delete", !.del = {k \in DOMAIN dirs : k \notin index}]
    /\ UNCHANGED <<clock, index, txn, dirs, staging, archs, snap, n, viol>>
GcDelete ==
    /\ inv.cmd = "gc" /\ inv.pc = "delete"
    /\ IF inv.del = {} THEN inv' = [inv EXCEPT !.pc = "end"] /\ UNCHANGED dirs
       ELSE \E k \in inv.del : dirs' = DelDirs({k}) /\ inv' = [inv EXCEPT !.del = @ \ {k}]
    /\ UNCHANGED <<clock, index, txn, staging, archs, snap, n, viol>>

(***************************************************************************)
(* end of a command / crash: judge with the StoreObs clauses               *)
(***************************************************************************)
Judge(crashed) ==
    LET B == snap
        A == Abs
        exit == IF crashed THEN 137 ELSE IF inv.cmd = "restore" /\ ~inv.ok THEN 1 ELSE 0
    IN SO!StateClauses(A) \cup
       (CASE inv.cmd = "run" ->
               SO!RunClauses(B, A, inv.spawns, 0, 0, crashed)
          [] inv.cmd = "restore" ->
               SO!RestoreClauses(B, A, exit, crashed,
                                 [rows |-> {<<k[1], k[2], 0, 0>> : k \in inv.a.rows},
                                  members |-> {<<k[1], k[2], k[2]>> : k \in inv.a.members},
                                  defect |-> IF ~inv.a.hasIndex THEN "noindex"
                                             ELSE IF ~(inv.a.rows \subseteq inv.a.members) THEN "missing" ELSE "none"])
          [] inv.cmd = "gc" -> SO!GcClauses(B, A, exit, crashed)
          [] inv.cmd = "archive" -> SO!V(A = B, "ArchiveReadOnly")
          [] OTHER -> {})

End ==
    /\ inv.cmd # "idle" /\ inv.pc = "end"
    /\ viol' = viol \cup Judge(FALSE) /\ inv' = Idle /\ txn' = {}
    /\ UNCHANGED <<clock, index, dirs, staging, archs, snap, n>>
Crash ==      \* the process dies: the uncommitted transaction is lost, everything on disk stays
    /\ inv.cmd # "idle" /\ inv.pc # "end"
    /\ viol' = viol \cup Judge(TRUE) /\ inv' = Idle /\ txn' = {}
    /\ UNCHANGED <<clock, index, dirs, staging, archs, snap, n>>

Next == \/ Tick \/ StepBack
        \/ (\E T \in {<<e>> : e \in Exps} \cup {<<a, b>> : a, b \in Exps} : (\A i, j \in 1..Len(T) : i # j => T[i] # T[j]) /\ RunBegin(T))
        \/ RunAlloc \/ RunPlanned \/ RunMkdir \/ RunDone \/ ChildOk \/ ChildFail \/ RunInsert \/ RunCommit
        \/ ArchiveBegin \/ ArchiveTar \/ Damage
        \/ (\E a \in archs : RestoreBegin(a)) \/ RestoreStage \/ RestoreExtract \/ RestoreLoad \/ RestoreCopy
        \/ RestoreCommit \/ RestoreRollback \/ RestoreCleanup
        \/ GcBegin \/ GcScan \/ GcDelete
        \/ End \/ Crash
Spec == Init /\ [][Next]_vars

(***************************************************************************)
(* Properties                                                              *)
(***************************************************************************)
NoViolation == viol = {}
ViolIn(S) == viol \cap S = {}
C06 == ViolIn({"IndexImpliesData", "RowsOnlyForExit0", "SuccessRecorded"}) /\ SO!IndexImpliesData(Abs)
C08 == ViolIn({"IdAboveRecorded", "DirFresh", "DirEmptyAtStart", "IdUnique", "RecordedImmutable"})
C12 == ViolIn({"FailedRestoreKeepsIndex", "SuccessMeansAll", "RestoreAddsExactlyArchive", "CannotCompleteMeansUnchanged",
               "RestoredTreesIdentical"})
C13 == ViolIn({"GcKeepsIndex", "GcKeepsRecorded", "GcCreatesNothing", "GcRemovesAllGarbage", "GcTouchesNothingElse"})
C11 == ViolIn({"ArchiveReadOnly", "ValidRestoreSucceeds"})
(* at every instant, including mid-command: the index never outlives its data *)
IndexNeverOutlivesData == \A k \in index : Exists(k) /\ dirs[k].complete
(* a failed / crashed restore leaves the index as it was: stated as an action property as well *)
FailedRestoreKeepsIndex == [][inv.cmd = "restore" /\ inv.pc # "rcommit" => index' = index]_vars
=============================================================================
