CONSTANT NRows = 2
CONSTANT MaxCrashes = 2
CONSTANT CheckTmpTable = FALSE
CONSTANT AtomicBackup = FALSE
SPECIFICATION Spec
INVARIANT NoVersionLost
INVARIANT MigratedExactly
INVARIANT BackupFaithful
INVARIANT Resumable
PROPERTY EventuallyMigrated
CHECK_DEADLOCK TRUE
