-------------------------- MODULE CondSchema_Trace --------------------------
(* Judges what the real `cond run --check` / `cond run` did with each concretised definition. *)
EXTENDS Naturals, Sequences, FiniteSets, TLC, Json, IOUtils, TLCExt
CS == INSTANCE CondSchema WITH d <- 0
Obs == ndJsonDeserialize(IOEnv.TRACE_FILE)
VARIABLE i
V(c, n) == IF c THEN {} ELSE {n}
Expected(r) == CASE r.kind = "def" -> CS!Accepts(r.def)
                 [] r.kind = "include" -> CS!IncludeAccepts(r.cls)
                 [] OTHER -> FALSE
Clauses(r) ==
        V(r.accepted = Expected(r), "AcceptIffSchema")
   \cup V(r.accepted \/ (r.exit # 0 /\ r.stderr = "ERROR" /\ r.namesFile), "CleanDiagnostic")
   \cup V(r.spawns = 0 \/ (r.accepted /\ ~r.checkOnly), "NothingExecuted")
   \cup V(r.outputsCreated = 0 \/ (r.accepted /\ ~r.checkOnly), "CheckCreatesNoOutput")
TInit == i \in 1..Len(Obs)
TNext == FALSE /\ UNCHANGED i
TSpec == TInit /\ [][TNext]_i
Judge == PrintT(ToJson([id |-> Obs[i].id, viol |-> Clauses(Obs[i]), expected |-> Expected(Obs[i])]))
=============================================================================
