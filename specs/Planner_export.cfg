CONSTANT N = 3
CONSTANT Kinds = {"exp", "cmd", "group", "combine"}
CONSTANT Modes = {"default", "again", "atleast"}
CONSTANT FixedD1 = FALSE
SPECIFICATION PSpec
INVARIANT Export
CHECK_DEADLOCK FALSE
