CONSTANT ND = 3
CONSTANT MaxLen = 3
CONSTANT Dups = TRUE
SPECIFICATION TSpec
INVARIANT Judge
CHECK_DEADLOCK FALSE
