------------------------------ MODULE Relevance ------------------------------
(* RelevanceCore checked on every universe: all commit DAGs with NC commits (<= 2 parents each: merges, criss-cross,
   unrelated roots), every HEAD, every set of <= 3 rows (distinct timestamps, commits incl. NULL and unknown),
   every flag. *)
EXTENDS RelevanceCore, Json

CONSTANTS NC, MaxTs

Parents == {p \in [1..NC -> SUBSET (1..NC)] : \A c \in 1..NC : (\A x \in p[c] : x < c) /\ Cardinality(p[c]) <= 2}
RowSets == {R \in SUBSET ((1..MaxTs) \X (0..(NC + 1))) : \A a, b \in R : a # b => a[1] # b[1]}

VARIABLES u, rows, flag
rvars == <<u, rows, flag>>
Init == /\ u \in {[nc |-> NC, parents |-> p, head |-> h, mode |-> "git"] : p \in Parents, h \in 1..NC}
               \cup {[nc |-> NC, parents |-> [c \in 1..NC |-> IF c = 1 THEN {} ELSE {c - 1}], head |-> NC, mode |-> m] :
                        m \in {"nogit", "disabled", "nocommit"}}
        /\ rows \in RowSets
        /\ flag \in {<<"default">>, <<"again">>} \cup
                    (IF u.mode = "git" THEN {<<"atleast", c>> : c \in Anc(u, u.head)} ELSE {})
Next == FALSE /\ UNCHANGED rvars
Spec == Init /\ [][Next]_rvars

AlgoMatchesRule == /\ AlgoMostRelevant(u, rows) = MostRelevant(u, rows)
                   /\ AlgoShouldRun(u, rows, flag) = MustRun(u, rows, flag)
NeverNonAncestor == LET s == MostRelevant(u, rows) IN
                    u.mode = "git" /\ s # None /\ s[2] # 0 => IsAncestor(u, s[2], u.head)
Export == PrintT(ToJson([u |-> u, rows |-> rows, flag |-> flag, sel |-> MostRelevant(u, rows), must |-> MustRun(u, rows, flag)]))
=============================================================================
