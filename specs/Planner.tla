------------------------------- MODULE Planner -------------------------------
(***************************************************************************)
(* The planner (PlannerCore.tla) as a state machine over every task graph: *)
(* one step = one iteration of create_plan_for's DFS loop.                 *)
(***************************************************************************)
EXTENDS PlannerCore

VARIABLES g, ps
pvars == <<g, ps>>

PInitS == /\ g \in Graphs /\ ps = PInit(g)
PNext  == /\ ~ps.done /\ ps' = PStep(g, ps) /\ UNCHANGED g
PSpec  == PInitS /\ [][PNext]_pvars

AtEnd(P(_, _)) == ps.done => P(g, ps)
InvExactlyOnce   == AtEnd(ExactlyOnce)
InvCachedExact   == AtEnd(CachedExact)
InvTotalIsNeeded == AtEnd(TotalIsNeeded)
InvEdgesExact    == AtEnd(EdgesExact)
InvInitialExact  == AtEnd(InitialExact)
InvFreshIds      == AtEnd(FreshIds)
InvSnapshotExact == AtEnd(SnapshotExact)

(* spec -> code: every instance with the declarative expectation and the plan this model predicts,
   one JSON line per instance (harness/checks/planner_replay.py feeds them to the real code) *)
Export ==
    ps.done => PrintT(ToJson([g |-> g,
                              needed |-> Needed(g), frontier |-> CachedFrontier(g),
                              mustRun |-> [t \in 1..g.n |-> MustRun(g, t)],
                              ops |-> ps.ops, cached |-> ps.cached, numToRun |-> ps.numToRun,
                              initial |-> ps.initial]))
=============================================================================
