CONSTANT N = 3
CONSTANT Kinds = {"exp", "cmd", "group"}
CONSTANT Modes = {"default", "again", "atleast"}
CONSTANT FixedD1 = TRUE
SPECIFICATION PSpec
INVARIANT InvExactlyOnce
INVARIANT InvCachedExact
INVARIANT InvTotalIsNeeded
INVARIANT InvEdgesExact
INVARIANT InvInitialExact
INVARIANT InvFreshIds
INVARIANT InvSnapshotExact
CHECK_DEADLOCK FALSE
