CONSTANT N = 3
SPECIFICATION Spec
INVARIANT Export
CHECK_DEADLOCK FALSE
