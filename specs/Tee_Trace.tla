------------------------------ MODULE Tee_Trace ------------------------------
EXTENDS Naturals, Sequences, FiniteSets, TLC, Json, IOUtils, TLCExt
T == INSTANCE Tee WITH NTok <- 1, Cap <- 1, R <- 1, JoinBeforeRecord <- TRUE, todo <- 0, pipe <- 0, file <- 0, fwd <- 0,
                       closed <- 0, rdone <- 0, pc <- 0, exited <- 0, recorded <- 0
Obs == ndJsonDeserialize(IOEnv.TRACE_FILE)
VARIABLE i
TInit == i \in 1..Len(Obs)
TNext == FALSE /\ UNCHANGED i
TSpec == TInit /\ [][TNext]_i
Judge == PrintT(ToJson([id |-> Obs[i].id, viol |-> T!ObsClauses(Obs[i])]))
=============================================================================
