----------------------------- MODULE CondSchema -----------------------------
(***************************************************************************)
(* The documented schema of COND task definitions (task-types/*.md,        *)
(* directives/include.md) as an acceptance predicate over ABSTRACT         *)
(* definitions: a constructor and, for every parameter, a value class.     *)
(* The harness concretises each class with several Python values           *)
(* (harness/checks/c15.py); TLC enumerates the product and states which    *)
(* definitions must be accepted.                                           *)
(***************************************************************************)
EXTENDS Naturals, Sequences, FiniteSets, TLC, Json

Ctors == {"run_experiment", "run_command", "group", "combine"}
RunCtors == {"run_experiment", "run_command"}

(* value classes; the first of each set is "absent" *)
NameCls == {"valid", "badgrammar", "wrongtype", "absent", "duplicate"}
RunCls  == {"str", "wrongtype", "absent"}
ParCls  == {"absent", "bool", "wrongtype"}
ArgsCls == {"absent", "primitives", "notlist", "nonprimitive"}
OptsCls == {"absent", "primitives", "notdict", "nonstringkey", "nonprimitive"}
DepsCls == {"absent", "valid", "relative", "notlist", "nonstr", "malformed", "duplicate", "samename"}
ExtraCls == {"none", "unknownparam", "positional"}

Defs ==
    [ctor : Ctors, name : NameCls, run : RunCls, par : ParCls, args : ArgsCls, opts : OptsCls, deps : DepsCls, extra : ExtraCls]

(* parameters that a constructor does not have must be absent (otherwise: unknown parameter) *)
Applicable(d) == d.ctor \in RunCtors \/ (d.run = "absent" /\ d.par = "absent" /\ d.args = "absent" /\ d.opts = "absent")

Accepts(d) ==
    /\ d.name = "valid"
    /\ (d.ctor \in RunCtors => d.run = "str")
    /\ d.par \in {"absent", "bool"}
    /\ d.args \in {"absent", "primitives"}
    /\ d.opts \in {"absent", "primitives"}
    /\ d.deps \in {"absent", "valid", "relative"} \cup (IF d.ctor = "combine" THEN {} ELSE {"samename"})
    /\ d.extra = "none"

(* include() directive classes *)
IncludeCls == {"ok", "okprojectrelative", "wrongext", "missing", "outside", "outsideviasymlink", "definestask", "includes",
               "definestask_exp", "definestask_group", "definestask_combine", "definestask_macro",
               "ok_two_combines", "ok_combine_twice", "ok_long_chain", "ok_long_group",
               "raises", "syntaxerror"}
IncludeAccepts(c) == c \in {"ok", "okprojectrelative", "ok_two_combines", "ok_combine_twice", "ok_long_chain", "ok_long_group"}

(* Python-level failures of the COND file itself: always rejected, cleanly *)
PyFailCls == {"raise_value", "raise_zerodiv", "raise_key", "raise_custom", "syntax", "name", "recursion", "notutf8",
              "condisdir", "typeerror_call", "assertion", "importerror", "oserror",
              \* syntax errors reported by the compiler stage (no offending source text), indentation, NUL byte
              "syntax_dup_kwarg", "syntax_toplevel_return", "syntax_dup_param", "syntax_break", "syntax_nonlocal",
              "indentation", "tabs", "nullbyte"}

VARIABLE d
Init == d \in {x \in Defs : Applicable(x)}
Next == FALSE /\ UNCHANGED d
Spec == Init /\ [][Next]_d
(* a definition with every parameter in its canonical good class is accepted; one bad class suffices to reject *)
Sane == /\ Accepts([ctor |-> d.ctor, name |-> "valid", run |-> IF d.ctor \in RunCtors THEN "str" ELSE "absent",
                    par |-> "absent", args |-> "absent", opts |-> "absent", deps |-> "absent", extra |-> "none"])
        /\ (d.extra # "none" => ~Accepts(d))
Export == PrintT(ToJson([def |-> d, accept |-> Accepts(d)]))
ExportIncludes == TRUE
=============================================================================
