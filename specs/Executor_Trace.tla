--------------------------- MODULE Executor_Trace ---------------------------
(***************************************************************************)
(* Trace validation against the IMPLEMENTATION-SHAPED specification:       *)
(* every trace recorded from the real `cond run` under the FakeKernel must *)
(* be a behaviour of Executor.tla (which reuses the model's own actions:   *)
(* each logged event constrains one action, unlogged steps - LoopTest,     *)
(* Register, Wait, ... - are taken silently).  A trace that cannot be      *)
(* consumed to its end is MODEL-DRIFT (the code no longer schedules the    *)
(* way the model says), never a property violation: properties are judged  *)
(* by RunObs.                                                              *)
(*                                                                         *)
(* Trace file (ndjson): [id, g (Planner graph record fields), jobs, stop,  *)
(* events]; events: Cached t | Running t k | Skipping t k | Spawn t slot   *)
(* ts | SpawnFail t | Exit t c | Handler | Stop t | Cont t | Success t |   *)
(* Failed t | Return exit.                                                 *)
(***************************************************************************)
EXTENDS Executor, Json, IOUtils, TLCExt

Traces == ndJsonDeserialize(IOEnv.TRACE_FILE)

VARIABLES tid, l
tvars == <<vars, tid, l>>

T == Traces[tid]
Ev == T.events[l]
NE == Len(T.events)
Has == l <= NE

GraphOf(t) ==
    [n |-> t.g.n, target |-> t.g.target, deps |-> [i \in 1..t.g.n |-> t.g.deps[i]], kind |-> [i \in 1..t.g.n |-> t.g.kind[i]],
     par |-> [i \in 1..t.g.n |-> t.g.par[i]], cachedTs |-> [i \in 1..t.g.n |-> t.g.cachedTs[i]],
     stale |-> [i \in 1..t.g.n |-> FALSE], again |-> t.g.again, atLeast |-> FALSE, now |-> t.g.now, lastTs0 |-> t.g.lastTs0]

TInit == /\ tid \in 1..Len(Traces) /\ l = 1
         /\ InitWith(GraphOf(Traces[tid]), Traces[tid].jobs, Traces[tid].stop)
         /\ TLCSet(tid, 1)

Consume(k) == l' = l + k /\ TLCSet(tid, IF l + k > TLCGet(tid) THEN l + k ELSE TLCGet(tid))
Silent(A) == A /\ UNCHANGED l

(* Start prints all "using cached results" lines at once *)
TStart == /\ pc = "start" /\ Start
          /\ \A i \in 1..Len(pl.cached) : l + i - 1 <= NE /\ T.events[l + i - 1].e = "Cached" /\ T.events[l + i - 1].t = pl.cached[i]
          /\ Consume(Len(pl.cached))
TLaunchRun  == /\ Has /\ Ev.e = "Running" /\ Launch /\ pc' # "launch" /\ pc' # "loop" /\ pc' # "wait"
               /\ TaskOf(cur') = Ev.t /\ ndeq' = Ev.k /\ Consume(1)
TLaunchSkip == /\ Has /\ Ev.e = "Skipping" /\ Launch /\ ndeq' = Ev.k /\ ndeq' = ndeq + 1 /\ pc' = "launch"
               /\ \E o \in Ops : ost[o] = "QUEUED" /\ ost'[o] = "SKIPPED" /\ TaskOf(o) = Ev.t
               /\ Consume(1)
TLaunchNone == /\ Launch /\ ndeq' = ndeq /\ UNCHANGED l
TSpawn == /\ Has /\ Ev.e = "Spawn" /\ ForkOK /\ TaskOf(cur) = Ev.t /\ curSlot = Ev.slot /\ pl.ops[cur].ver = Ev.ts /\ Consume(1)
(* a launch failure is logged as SpawnFail followed by the "failed" line *)
TSpawnFail == /\ Has /\ Ev.e = "SpawnFail" /\ ForkFail /\ TaskOf(cur) = Ev.t
              /\ l + 1 <= NE /\ T.events[l + 1].e = "Failed" /\ T.events[l + 1].t = Ev.t /\ Consume(2)
TExit == /\ Has /\ Ev.e = "Exit" /\ \E p \in Ops : TaskOf(p) = Ev.t /\ ChildExit(p) /\ code'[p] = Ev.c
         /\ Consume(1)
THandler == /\ Has /\ Ev.e = "Handler" /\ Handler /\ Consume(1)
(* job control from outside: the task's process is stopped / continued (JobControl = TRUE in the trace configuration) *)
TStopCont == /\ Has /\ Ev.e \in {"Stop", "Cont"}
             /\ \E p \in Ops : /\ TaskOf(p) = Ev.t /\ StopOrCont(p)
                                /\ proc'[p] = (IF Ev.e = "Stop" THEN "stopped" ELSE "resumed")
             /\ Consume(1)
TFinishOk == /\ Has /\ Ev.e = "Success" /\ Finish /\ TaskOf(cur) = Ev.t /\ ost'[cur] = "SUCCEEDED" /\ Consume(1)
TFinishFail == /\ Has /\ Ev.e = "Failed" /\ Finish /\ TaskOf(cur) = Ev.t /\ ost'[cur] = "FAILED" /\ Consume(1)
TReport == /\ Has /\ Ev.e = "Return" /\ Report
           /\ LET e == IF \A o \in RangeS(completed) : ost[o] = "SUCCEEDED" THEN 0 ELSE 1 IN Ev.exit = e
           /\ Consume(1)
(* stop-early tail (kills) is not validated step by step: the trace ends at the first Kill *)
TNext == \/ TStart \/ TLaunchRun \/ TLaunchSkip \/ TLaunchNone \/ TSpawn \/ TSpawnFail \/ TExit \/ THandler \/ TStopCont
         \/ TFinishOk \/ TFinishFail \/ TReport
         \/ Silent(LoopTest) \/ Silent(SyncStart) \/ Silent(Register) \/ Silent(WaitTry) \/ Silent(Unblock) \/ Silent(AfterLoop) \/ Silent(KillExits)
TSpec == TInit /\ [][TNext /\ UNCHANGED tid]_tvars

(* one line per trace: how far it could be consumed *)
Verdicts == \A i \in 1..Len(Traces) :
               PrintT(ToJson([id |-> Traces[i].id, reached |-> TLCGet(i) - 1, n |-> Len(Traces[i].events)]))
=============================================================================
