------------------------------- MODULE RunObs -------------------------------
(***************************************************************************)
(* The OBSERVABLE contract of `cond run`, written as a monitor.            *)
(*                                                                         *)
(* Nothing in here mentions Conductor's data structures: the state is what *)
(* an outside observer can see (process spawns with argv/env/cwd, child    *)
(* exits, reaps, killpg calls, printed progress lines, the final report,   *)
(* the exit status and the rows added to the version index).  Every        *)
(* property clause is a named conjunct; an event is always consumable and  *)
(* the clauses it breaks are accumulated in `viol`, so that a verdict is   *)
(* total and names the failing clause.                                     *)
(*                                                                         *)
(* It is instantiated two ways:                                            *)
(*   - RunObs_Trace.tla judges traces recorded from the real code;         *)
(*   - Executor.tla (implementation-shaped) is checked to never produce an *)
(*     event sequence on which this monitor reports a violation.           *)
(***************************************************************************)
EXTENDS Naturals, Integers, Sequences, FiniteSets, TLC

(* A run configuration C is a record:                                      *)
(*  n        number of tasks, tasks are 1..n                               *)
(*  target   the task given on the command line                            *)
(*  deps     <<seq of direct dependencies (task numbers), ...>> as listed  *)
(*  kind     "exp" | "cmd" | "group" | "combine"                           *)
(*  par      parallelizable flag                                           *)
(*  reusable experiment has a reusable recorded version and no flag forces *)
(*           a re-run (computed by Relevance.tla's rule from the scenario) *)
(*  jobs     --jobs,  stop  --stop-early                                   *)

RECURSIVE NeededFrom(_, _)
MustRun(C, t) == C.kind[t] # "exp" \/ ~C.reusable[t]
NeededFrom(C, t) ==
    IF ~MustRun(C, t) THEN {}
    ELSE {t} \cup UNION {NeededFrom(C, C.deps[t][i]) : i \in 1..Len(C.deps[t])}
Needed(C) == NeededFrom(C, C.target)

DirectDeps(C, t) == {C.deps[t][i] : i \in 1..Len(C.deps[t])}

(* Reusable experiments at the frontier: reached from the target through   *)
(* must-run tasks only.  These are the ones reported as "using cached".    *)
CachedFrontier(C) ==
    {t \in 1..C.n : ~MustRun(C, t) /\
        (t = C.target \/ \E p \in Needed(C) : t \in DirectDeps(C, p))}

(* Transitive dependencies of t through tasks executed in this invocation. *)
RECURSIVE NTD(_, _)
NTD(C, t) ==
    LET d == DirectDeps(C, t) \cap Needed(C)
    IN  d \cup UNION {NTD(C, x) : x \in d}

IsProc(C, t) == C.kind[t] \in {"exp", "cmd"}

(***************************************************************************)
(* Monitor state                                                           *)
(***************************************************************************)
EmptyFn == [x \in {} |-> 0]
Put(f, k, v) == [x \in DOMAIN f \cup {k} |-> IF x = k THEN v ELSE f[x]]

MonInit ==
    [ spawned    |-> {},        \* tasks whose process was spawned
      nspawn     |-> EmptyFn,   \* task -> number of spawns
      nexit      |-> EmptyFn,   \* task -> number of exits
      live       |-> {},        \* tasks with a process spawned and not yet exited (the kernel's view); a task executed twice
                                \* stays live until BOTH processes have exited
      exitst     |-> EmptyFn,   \* task -> 0 (exit 0) | >0 (non-zero / signal)
      launchfail |-> {},        \* tasks whose launch failed
      slotOf     |-> EmptyFn,   \* task -> COND_SLOT (-1 when unset)
      outTs      |-> EmptyFn,   \* task -> version directory it was given
      cachedSaid |-> {},
      runSaid    |-> {},
      skipSaid   |-> {},
      outcome    |-> EmptyFn,   \* task -> "success" | "failed" | "skipped"
      nlines     |-> 0,         \* progress lines so far
      failSeen   |-> FALSE,     \* Conductor has reported a failure
      killed     |-> {},        \* tasks whose process GROUP was signalled
      leaderOnly |-> {},        \* tasks of which only the leading process was signalled (kill(pid) instead of killpg)
      badkill    |-> FALSE,
      aborted    |-> FALSE,
      liveAtAbort|-> {},
      viol       |-> {} ]

Failed(m, t) == (t \in DOMAIN m.exitst /\ m.exitst[t] # 0) \/ t \in m.launchfail
Succeeded(C, m, t) ==
    IF IsProc(C, t) THEN t \in DOMAIN m.exitst /\ m.exitst[t] = 0 /\ t \notin m.live
    ELSE t \in DOMAIN m.outcome /\ m.outcome[t] = "success"

V(cond, name) == IF cond THEN {} ELSE {name}

Count(f, t) == IF t \in DOMAIN f THEN f[t] ELSE 0
NLive(m, t) == Count(m.nspawn, t) - Count(m.nexit, t)
RECURSIVE SumLive(_, _)
SumLive(m, S) == IF S = {} THEN 0 ELSE LET x == CHOOSE y \in S : TRUE IN NLive(m, x) + SumLive(m, S \ {x})


(***************************************************************************)
(* Events                                                                  *)
(***************************************************************************)
OnCachedLine(C, m, t) ==
    [m EXCEPT !.cachedSaid = @ \cup {t},
              !.viol = @ \cup V(t \in CachedFrontier(C), "CachedIsReusable")
                         \cup V(t \notin m.cachedSaid, "CachedOnce")
                         \cup V(t \notin m.spawned \cup m.runSaid \cup m.skipSaid, "NotAlsoStarted")]

(* In real-process traces (C.linesLate) output lines carry their ARRIVAL time, which may be arbitrarily later than   *)
(* the moment they were printed, so the completion of a task without a process cannot be placed before a spawn;    *)
(* the process dependencies reached through such tasks (NTD is transitive) are still required to have exited 0.    *)
StartOK(C, m, t) == \A d \in NTD(C, t) : (C.linesLate /\ ~IsProc(C, d)) \/ Succeeded(C, m, d)

OnRunningLine(C, m, t, k, n) ==
    [m EXCEPT !.runSaid = @ \cup {t}, !.nlines = @ + 1,
              !.viol = @ \cup V(n = Cardinality(Needed(C)), "TotalIsNeeded")
                         \cup V(k = m.nlines + 1, "CounterMonotone")
                         \cup V(t \in Needed(C), "OnlyNeeded")
                         \cup V(t \notin m.runSaid \cup m.skipSaid, "AtMostOnce")
                         \cup V(t \notin m.cachedSaid, "NotAlsoStarted")
                         \cup V(IsProc(C, t) \/ StartOK(C, m, t), "StartAfterDepsExit0")
                         \cup V(IsProc(C, t) \/ ~(C.stop /\ m.failSeen), "NothingAfterFirstFailure")]

OnSkippingLine(C, m, t, k, n) ==
    [m EXCEPT !.skipSaid = @ \cup {t}, !.nlines = @ + 1,
              !.outcome = Put(@, t, "skipped"),
              !.viol = @ \cup V(n = Cardinality(Needed(C)), "TotalIsNeeded")
                         \cup V(k = m.nlines + 1, "CounterMonotone")
                         \cup V(t \in Needed(C), "OnlyNeeded")
                         \cup V(t \notin m.runSaid \cup m.skipSaid, "AtMostOnce")
                         \cup V(t \notin DOMAIN m.outcome, "OneOutcomeEach")
                         \cup V(\E d \in NTD(C, t) : Failed(m, d) \/
                                   (d \in DOMAIN m.outcome /\ m.outcome[d] = "failed"),
                                "SkipIffDependsOnFailure")]

OnSpawn(C, m, t, slot, ts) ==
    [m EXCEPT !.spawned = @ \cup {t}, !.live = @ \cup {t},
              !.nspawn = Put(@, t, IF t \in DOMAIN @ THEN @[t] + 1 ELSE 1),
              !.slotOf = Put(@, t, slot),
              !.outTs = Put(@, t, ts),
              !.viol = @ \cup V(t \in Needed(C), "OnlyNeeded")
                         \cup V(t \notin m.spawned, "AtMostOnce")
                         \cup V(t \notin m.cachedSaid, "NotAlsoStarted")
                         \cup V(t \notin m.skipSaid, "SkippedNeverStarted")
                         \cup V(StartOK(C, m, t), "StartAfterDepsExit0")
                         \cup V(\A r \in m.live : r \notin NTD(C, t) /\ t \notin NTD(C, r) /\ r # t,
                                "NoOverlapWithDependency")
                         \cup V(SumLive(m, m.live) < C.jobs, "AtMostJobs")
                         \cup V(m.live = {} \/ (C.par[t] /\ \A r \in m.live : C.par[r]), "SequentialAlone")
                         \cup V(slot < 0 \/ \A r \in m.live : m.slotOf[r] # slot, "DistinctSlots")
                         \cup V(slot < C.jobs, "SlotRange")
                         \cup V((slot >= 0) <=> (C.par[t] /\ C.jobs > 1), "SlotIffParallel")
                         \cup V(~(C.stop /\ m.failSeen), "NothingAfterFirstFailure")]

(* The environment contract of a spawn (C07) and the freshness of its version directory (C08).
   ev carries what the child received: shell, flag, argc, cmd (tokens), cwdPkg, condName,
   outOk/outExists/outTask/ts (COND_OUT parsed back), outListing (content at spawn, minus Conductor's own logs),
   depsOk/deps (COND_DEPS parsed back into <<task, version>> pairs). To be applied BEFORE OnSpawn. *)
OptTok(o) == "--" \o o[1] \o "=" \o o[2]
ExpectedDeps(C, m, t) ==
    LET out(d) == IF C.kind[d] = "group" THEN <<0, 0>>
                  ELSE IF C.kind[d] # "exp" THEN <<d, 0>>
                  ELSE IF d \in DOMAIN m.outTs THEN <<d, m.outTs[d]>>
                  ELSE IF C.rts[d] > 0 THEN <<d, C.rts[d]>> ELSE <<0, 0>>
    IN SelectSeq([i \in 1..Len(C.deps[t]) |-> out(C.deps[t][i])], LAMBDA p : p[1] # 0)

OnSpawnEnv(C, m, t, ev) ==
    [m EXCEPT !.viol = @
        \cup V(ev.shell = "/bin/bash" /\ ev.flag = "-c" /\ ev.argc = 3, "EnvShell")
        \cup V(ev.cmd = C.run[t] \o C.args[t] \o [i \in 1..Len(C.opts[t]) |-> OptTok(C.opts[t][i])], "EnvArgv")
        \cup V(ev.cwdPkg = C.pkg[t], "EnvCwd")
        \cup V(ev.condName = C.name[t], "EnvName")
        \cup V(ev.outOk /\ ev.outExists /\ ev.outTask = t /\ ((C.kind[t] = "exp") <=> (ev.ts > 0)), "EnvOut")
        \cup V(ev.depsOk /\ ev.deps = ExpectedDeps(C, m, t), "EnvDeps")
        \cup V(C.kind[t] # "exp" \/ ev.ts > C.maxrow, "IdAboveRecorded")
        \cup V(C.kind[t] # "exp" \/ \A r \in DOMAIN m.outTs : m.outTs[r] # ev.ts, "IdUnique")
        \cup V(C.kind[t] # "exp" \/ ev.outListing = <<>>, "DirFreshAndEmpty")]

(* What conductor.lib reports inside the task (strings interned to numbers by the harness):
   get_output_path() = COND_OUT, get_deps_paths() = the listed directories in order (the EMPTY list when there
   are none), in_output_dir(p) = COND_OUT/p *)
OnLib(C, m, ev) ==
    [m EXCEPT !.viol = @
        \cup V(ev.libOut = ev.envOut, "LibAgrees")
        \cup V(ev.libDeps = ev.envDeps, "LibAgrees")
        \cup V(ev.libIn = ev.wantIn, "LibAgrees")]

OnSpawnFail(C, m, t) ==
    [m EXCEPT !.launchfail = @ \cup {t},
              !.viol = @ \cup V(t \in Needed(C), "OnlyNeeded")
                         \cup V(StartOK(C, m, t), "StartAfterDepsExit0")]

OnExit(C, m, t, st) ==
    [m EXCEPT !.nexit = Put(@, t, Count(@, t) + 1),
              !.live = IF NLive(m, t) <= 1 THEN @ \ {t} ELSE @,
              !.exitst = Put(@, t, st)]

OnSuccessLine(C, m, t) ==
    [m EXCEPT !.outcome = Put(@, t, "success"),
              !.viol = @ \cup V(t \notin DOMAIN m.outcome, "OneOutcomeEach")
                         \cup V(~IsProc(C, t) \/ (t \in DOMAIN m.exitst /\ m.exitst[t] = 0 /\ t \notin m.live),
                                "StatusBelongsToTask")]

OnFailedLine(C, m, t, syncfail) ==
    [m EXCEPT !.outcome = Put(@, t, "failed"), !.failSeen = TRUE,
              !.viol = @ \cup V(t \notin DOMAIN m.outcome, "OneOutcomeEach")
                         \cup V(IF IsProc(C, t) THEN Failed(m, t) ELSE syncfail, "StatusBelongsToTask")]

(* grp: the signal went to the process GROUP (killpg); a signal to the leading process alone leaves the rest of the task's  *)
(* processes running - the exit of the leader that follows does not show that the task was stopped                           *)
OnKill(C, m, t, sig, foreign, grp) ==
    [m EXCEPT !.killed = @ \cup (IF foreign \/ ~grp \/ sig # 15 THEN {} ELSE {t}),      \* "receives SIGTERM": nothing else counts
              !.leaderOnly = @ \cup (IF ~foreign /\ (~grp \/ sig # 15) THEN {t} ELSE {}),   \* (also: the group got another signal)
              !.badkill = @ \/ foreign \/ sig # 15,
              !.viol = @ \cup V(~foreign, "OnlyOwnGroups")]

(* a version recorded by this invocation (read from the index afterwards): it is the version whose directory the task was    *)
(* given as COND_OUT - what `cond where` and dependents' COND_DEPS will point at later is what this execution wrote            *)
OnRow(C, m, t, ts) ==
    [m EXCEPT !.viol = @ \cup V(t \in DOMAIN m.outTs /\ m.outTs[t] = ts, "RowIsTheVersionRun")]

OnAbort(C, m, liveTasks) ==
    [m EXCEPT !.aborted = TRUE, !.liveAtAbort = liveTasks]

(* exit: 0, 1, ... or -1 for "did not return normally" (hang / exception)  *)
(* stderrKind: "none" | "ERROR" | "Traceback"                              *)
OnReturn(C, m, exit, hang, stderrKind, failedList, skippedList, newRows, bannerAborted) ==
    LET N == Needed(C)
        trulyFailed == {t \in N : Failed(m, t) \/ (~IsProc(C, t) /\ t \in DOMAIN m.outcome /\ m.outcome[t] = "failed")}
        shouldSkip == {t \in N : \E d \in NTD(C, t) : d \in trulyFailed}
        allOk == \A t \in N : Succeeded(C, m, t)
        normal == ~m.aborted /\ ~hang
    IN [m EXCEPT !.viol = @
          \cup V(~hang, "TerminatesWhenAllExited")
          \cup V(hang \/ m.live = {} \/ m.aborted, "TerminatesWhenAllExited")
          \cup V(~normal \/ exit >= 0, "NoInternalError")
          \cup V(~normal \/ ((exit = 0) <=> allOk), "ExitZeroIffAllSucceeded")
          \cup V(~normal \/ exit = 0 \/
                 (IF C.stop
                  THEN failedList # {} /\ failedList \subseteq trulyFailed
                       /\ {t \in DOMAIN m.outcome : m.outcome[t] = "failed"} \subseteq failedList
                  ELSE failedList = trulyFailed), "FailedListExact")
          \cup V(~normal \/ exit = 0 \/ C.stop \/ skippedList = shouldSkip, "SkippedListExact")
          \cup V(~normal \/ C.stop \/ \A t \in N : t \in DOMAIN m.outcome \/ t \in m.launchfail, "OneOutcomeEach")
          \cup V(~normal \/ C.stop \/ \A t \in N \ shouldSkip :
                      IF IsProc(C, t) THEN t \in m.spawned \cup m.launchfail ELSE t \in m.runSaid, "IndependentsRan")
          \cup V(~normal \/ \A t \in shouldSkip : t \notin m.spawned, "SkippedNeverStarted")
          \cup V(~normal \/ ~C.stop \/ ~m.failSeen \/
                      \A t \in m.spawned : t \in DOMAIN m.exitst, "StopEarlyKilledRunning")
          \cup V(~normal \/ ~m.badkill, "StopEarlyKilledRunning")
          \cup V(hang \/ (IF m.aborted
                           THEN newRows \subseteq {t \in N : C.kind[t] = "exp" /\ t \in DOMAIN m.exitst /\ m.exitst[t] = 0}
                           ELSE newRows = {t \in N : C.kind[t] = "exp" /\ Succeeded(C, m, t) /\
                                              t \in DOMAIN m.outcome /\ m.outcome[t] = "success"}),
                 "RowsOnlyForExit0")
          \cup V(~m.aborted \/ hang \/ m.liveAtAbort \subseteq m.killed \cup ({t \in DOMAIN m.exitst : TRUE} \ m.leaderOnly), "AllLiveKilled")
          (* ... and it SAYS that it was aborted (bannerAborted: the abort message was printed), not something else *)
          \cup V(~m.aborted \/ hang \/ (exit = 1 /\ stderrKind = "ERROR" /\ bannerAborted), "AbortedNotInternal")]
=============================================================================
