CONSTANT N = 3
CONSTANT Kinds = {"exp", "cmd", "group"}
CONSTANT Modes = {"default"}
CONSTANT FixedD1 = TRUE
CONSTANT MaxJobs = 2
CONSTANT StopModes = {FALSE, TRUE}
CONSTANT ExitCodes = {0, 1}
CONSTANT LaunchFail = TRUE
CONSTANT SecondReaper = FALSE
CONSTANT WakeupFd = TRUE
CONSTANT JobControl = FALSE
CONSTANT AllowAbort = FALSE
SPECIFICATION Spec
INVARIANT C01
INVARIANT C02
INVARIANT C03
INVARIANT C04
INVARIANT C09
INVARIANT PipeMatchesList
INVARIANT SlotStack
INVARIANT WaitingCounts
PROPERTY Terminates
CHECK_DEADLOCK TRUE
