--------------------------------- MODULE Tee ---------------------------------
(***************************************************************************)
(* Output recording of a run_experiment execution (utils/tee.py,           *)
(* utils/output_handler.py, ops/run_task_executable.py:finish_execution).  *)
(* Per stream (1 = stdout, 2 = stderr) the child's writes are a sequence   *)
(* of tokens.  Sequential mode: child -> pipe -> tee thread -> log file +  *)
(* Conductor's own stream; finish_execution joins both tee threads, then   *)
(* looks at the exit status, then records.  Parallel mode: the log file is *)
(* the child's stdout/stderr.                                              *)
(* One action per read / write / close / join; TLC explores every order of *)
(* child writes, child exit, SIGCHLD observation, reads and joins.         *)
(***************************************************************************)
EXTENDS Naturals, Sequences, FiniteSets, TLC

CONSTANTS NTok,      \* tokens per stream
          Cap,       \* pipe capacity (tokens)
          R,         \* tokens per read1
          JoinBeforeRecord   \* TRUE: finish() waits for both tee threads (the code); FALSE: a broken variant

Streams == {1, 2}
VARIABLES todo,     \* stream -> tokens the child still has to write
          pipe, file, fwd,
          closed,   \* child's end of the pipe closed (child exited)
          rdone,    \* tee thread reached EOF
          pc,       \* main thread: "wait" | "join1" | "join2" | "record" | "done"
          exited, recorded
vars == <<todo, pipe, file, fwd, closed, rdone, pc, exited, recorded>>

Written(s) == [i \in 1..NTok |-> i]
Init == /\ todo = [s \in Streams |-> Written(s)] /\ pipe = [s \in Streams |-> <<>>]
        /\ file = [s \in Streams |-> <<>>] /\ fwd = [s \in Streams |-> <<>>]
        /\ closed = [s \in Streams |-> FALSE] /\ rdone = [s \in Streams |-> FALSE]
        /\ pc = "wait" /\ exited = FALSE /\ recorded = FALSE

ChildWrite(s) ==
    /\ ~exited /\ todo[s] # <<>> /\ Len(pipe[s]) < Cap
    /\ pipe' = [pipe EXCEPT ![s] = Append(@, Head(todo[s]))] /\ todo' = [todo EXCEPT ![s] = Tail(@)]
    /\ UNCHANGED <<file, fwd, closed, rdone, pc, exited, recorded>>
ChildExit ==
    /\ ~exited /\ \A s \in Streams : todo[s] = <<>>
    /\ exited' = TRUE /\ closed' = [s \in Streams |-> TRUE]
    /\ UNCHANGED <<todo, pipe, file, fwd, rdone, pc, recorded>>
(* pipe.read1(4096): whatever is available, at most R tokens; EOF only when empty and closed *)
Read(s) ==
    /\ ~rdone[s]
    /\ IF pipe[s] # <<>>
       THEN \E k \in 1..R : k <= Len(pipe[s]) /\
              LET got == SubSeq(pipe[s], 1, k) IN
              /\ file' = [file EXCEPT ![s] = @ \o got] /\ fwd' = [fwd EXCEPT ![s] = @ \o got]
              /\ pipe' = [pipe EXCEPT ![s] = SubSeq(@, k + 1, Len(@))] /\ UNCHANGED rdone
       ELSE closed[s] /\ rdone' = [rdone EXCEPT ![s] = TRUE] /\ UNCHANGED <<file, fwd, pipe>>
    /\ UNCHANGED <<todo, closed, pc, exited, recorded>>
(* the SIGCHLD handler reaped the child: wait_for_next_op returns, finish_execution starts *)
ObserveExit == /\ pc = "wait" /\ exited /\ pc' = "join1"
               /\ UNCHANGED <<todo, pipe, file, fwd, closed, rdone, exited, recorded>>
Join(s, here, next) ==
    /\ pc = here /\ (rdone[s] \/ ~JoinBeforeRecord) /\ pc' = next
    /\ UNCHANGED <<todo, pipe, file, fwd, closed, rdone, exited, recorded>>
Record == /\ pc = "record" /\ recorded' = TRUE /\ pc' = "done"
          /\ UNCHANGED <<todo, pipe, file, fwd, closed, rdone, exited>>
Done == pc = "done" /\ UNCHANGED vars
Next == (\E s \in Streams : ChildWrite(s) \/ Read(s)) \/ ChildExit \/ ObserveExit
        \/ Join(1, "join1", "join2") \/ Join(2, "join2", "record") \/ Record \/ Done
Spec == Init /\ [][Next]_vars /\ WF_vars(Next)

(* at the moment the version is recorded the logs are complete and were forwarded completely *)
RecordedImpliesExact == recorded => \A s \in Streams : file[s] = Written(s) /\ fwd[s] = Written(s)
PrefixAlways == \A s \in Streams : /\ file[s] = SubSeq(Written(s), 1, Len(file[s])) /\ fwd[s] = file[s]
Terminates == <>(pc = "done")

(***************************************************************************)
(* Observed executions (tokens parsed back from the real files/streams)    *)
(*  r.mode "seq" | "par"; r.written / r.logged / r.forwarded : per stream  *)
(*  sequences of token numbers (negative = payload digest mismatch)        *)
(***************************************************************************)
V(c, n) == IF c THEN {} ELSE {n}
ObsClauses(r) ==
        V(r.logged[1] = r.written[1] /\ r.logged[2] = r.written[2], "LogsExact")
   \cup V(r.mode # "seq" \/ (r.forwarded[1] = r.written[1] /\ r.forwarded[2] = r.written[2]), "ForwardedExact")
   \cup V(r.mode # "par" \/ (r.forwarded[1] = <<>> /\ r.forwarded[2] = <<>>), "ParallelNotForwarded")
   (* the records belong to a finished (exit 0) execution; after a failure they need not exist, but must not be wrong *)
   \cup V((r.failed \/ r.argsPresent = r.argsNonEmpty) /\ (~r.argsPresent \/ r.argsEqual), "ArgsRecordExact")
   \cup V((r.failed \/ r.optsPresent = r.optsNonEmpty) /\ (~r.optsPresent \/ r.optsEqual), "OptionsRecordExact")
   \cup V(r.extraBytes = 0, "NoExtraBytes")
=============================================================================
