SPECIFICATION Spec
INVARIANT TypeOK
INVARIANT RefusedIsHarmless
INVARIANT CheckIsDry
INVARIANT NoProjectNoTrace
INVARIANT RanRespectsFlags
INVARIANT CommitFlagNeverIgnored
PROPERTY Terminates
CHECK_DEADLOCK TRUE
