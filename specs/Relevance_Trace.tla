--------------------------- MODULE Relevance_Trace ---------------------------
(* Judges what the real code did (cond where / cond run / COND_DEPS of a dependent) in real git universes. *)
EXTENDS RelevanceCore, Json, IOUtils, TLCExt

Obs == ndJsonDeserialize(IOEnv.TRACE_FILE)
VARIABLE i
SetOf(s) == {s[k] : k \in 1..Len(s)}
U(r) == [nc |-> r.nc, parents |-> [c \in 1..r.nc |-> SetOf(r.parents[c])], head |-> r.head, mode |-> r.mode]
Rows(r) == {<<x[1], x[2]>> : x \in SetOf(r.rows)}
Flag(r) == IF r.again THEN <<"again">> ELSE IF r.atleast \/ r.thiscommit THEN <<"atleast", r.c>> ELSE <<"default">>
Clauses(r) ==
    LET u == U(r)
        rows == Rows(r)
        sel == MostRelevant(u, rows)
        verdict == ArgsVerdict(u, r.again, r.atleast, r.thiscommit, r.cValid, r.c)
        must == MustRun(u, rows, Flag(r))
        V(c, n) == IF c THEN {} ELSE {n}
    IN  V(r.where = sel[1], "WhereIsMostRelevant")
   \cup V((verdict = "ok") = ~r.rejected, "FlagValidation")
   \cup V(~r.rejected \/ (~r.ran /\ ~r.cached), "NothingRunsWhenRejected")
   \cup V(verdict # "ok" \/ r.rejected \/ (r.ran = must), "RunIffMustRun")
   \cup V(verdict # "ok" \/ r.rejected \/ (r.cached = ~must), "CachedLineIffReused")
   \cup V(verdict # "ok" \/ r.rejected \/ (IF must THEN r.depTs > r.maxTs ELSE r.depTs = sel[1]), "DependentSeesSelected")
TInit == i \in 1..Len(Obs)
TNext == FALSE /\ UNCHANGED i
TSpec == TInit /\ [][TNext]_i
Judge == PrintT(ToJson([id |-> Obs[i].id, viol |-> Clauses(Obs[i]), sel |-> MostRelevant(U(Obs[i]), Rows(Obs[i]))]))
=============================================================================
