------------------------------- MODULE Schema -------------------------------
(***************************************************************************)
(* run_experiment_group as its documented expansion                        *)
(* (task_types/stdlib/run_experiment_group.py, website/docs/task-types/    *)
(* run-experiment-group.md): one run_experiment per instance plus a        *)
(* combine task named after the group.                                     *)
(*                                                                         *)
(* A group definition g = [name, run, deps (seq of strings), chain,        *)
(* insts (seq of [name, args, opts, par])]; `others` = names of the other  *)
(* tasks defined in the same COND file before the group.                   *)
(***************************************************************************)
EXTENDS Naturals, Sequences, FiniteSets, TLC, Json

Rel(n) == ":" \o n

Expand(g) ==
    [i \in 1..Len(g.insts) |->
        [ctor |-> "run_experiment", name |-> g.insts[i].name, run |-> g.run, args |-> g.insts[i].args,
         opts |-> g.insts[i].opts, par |-> g.insts[i].par,
         deps |-> g.deps \o (IF g.chain /\ i > 1 THEN <<Rel(g.insts[i - 1].name)>> ELSE <<>>)]]
    \o << [ctor |-> "combine", name |-> g.name, run |-> "", args |-> <<>>, opts |-> <<>>, par |-> FALSE,
           deps |-> [i \in 1..Len(g.insts) |-> Rel(g.insts[i].name)]] >>

(* BadArgs / BadOpts stand for an ill-typed value (a tuple / string / generator for args, a list of pairs for options): the explicit
   run_experiment(...) definition is rejected by the schema, so the group must be rejected too *)
BadArgs == <<"__BAD__">>
BadOpts == << <<"__BAD__", "x">> >>
IllTyped(defs) == \E i \in 1..Len(defs) : defs[i].args = BadArgs \/ defs[i].opts = BadOpts
Names(defs) == [i \in 1..Len(defs) |-> defs[i].name]
HasDup(s) == \E i, j \in 1..Len(s) : i # j /\ s[i] = s[j]
(* the expansion is rejected exactly when two definitions of the file end up with the same name *)
Rejected(g, others) == HasDup(others \o Names(Expand(g))) \/ IllTyped(Expand(g))

(***************************************************************************)
(* the abstract groups enumerated for conformance                          *)
(***************************************************************************)
InstNames == {"e1", "e2", "g", "d1"}     \* ("e3" appears in the three-instance groups)
ArgChoices == {<<>>, <<"1", "a">>}
(* options keep their DECLARED order on the command line: a two-key choice in non-alphabetical order *)
OptChoices == {<<>>, << <<"k", "2">> >>, << <<"k", "2">>, <<"b", "x">> >>}
Insts == [name : InstNames, args : ArgChoices, opts : OptChoices, par : BOOLEAN]
Plain(n, p) == [name |-> n, args |-> <<>>, opts |-> <<>>, par |-> p]
InstSeqs == {<<>>} \cup {<<a>> : a \in Insts} \cup {<<a, b>> : a \in Insts, b \in {x \in Insts : x.args = <<>> \/ x.opts = <<>>}}
            \cup {<<Plain("e1", p), Plain("e2", q), Plain(n3, p)>> : p, q \in BOOLEAN, n3 \in {"e3", "e1"}}
            \cup {<<[name |-> "e1", args |-> a, opts |-> o, par |-> FALSE]>> : a \in {<<>>, BadArgs}, o \in {<<>>, BadOpts}}
            \cup {<<Plain("e1", TRUE), [name |-> "e2", args |-> BadArgs, opts |-> <<>>, par |-> FALSE]>>}
DepChoices == {<<>>, <<":d1">>, <<":d1", "//:d2">>}
Groups == [name : {"g"}, run : {"true"}, deps : DepChoices, chain : BOOLEAN, insts : InstSeqs]

VARIABLE grp
Init == grp \in Groups
Next == FALSE /\ UNCHANGED grp
Spec == Init /\ [][Next]_grp
Others == <<"d1", "d2">>
(* sanity of the expansion itself *)
ExpansionShape ==
    LET e == Expand(grp) IN
    /\ Len(e) = Len(grp.insts) + 1
    /\ e[Len(e)].ctor = "combine" /\ Len(e[Len(e)].deps) = Len(grp.insts)
    /\ \A i \in 1..Len(grp.insts) : (grp.chain /\ i > 1) => e[i].deps[Len(e[i].deps)] = Rel(grp.insts[i - 1].name)
Export == PrintT(ToJson([g |-> grp, expansion |-> Expand(grp), rejected |-> Rejected(grp, Others)]))
=============================================================================
