CONSTANT L = 6
SPECIFICATION Spec
INVARIANT Theorems
CHECK_DEADLOCK FALSE
