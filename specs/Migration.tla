----------------------------- MODULE Migration -----------------------------
(***************************************************************************)
(* The version-index format migration v1 -> v2 of                          *)
(* execution/version_index.py (VersionIndex.create_or_load ->              *)
(* _run_v1_to_v2_migration), with the process killed at any step and the   *)
(* command started again.  Not needed by any listed property; part of the  *)
(* growth of the specification (DESIGN section 15).                        *)
(*                                                                         *)
(* Grain: one action per statement of the migration, with the transaction  *)
(* semantics of Python's sqlite3 module (legacy isolation level): DDL      *)
(* outside a transaction is committed at once (CREATE TABLE is             *)
(* autocommitted), the first INSERT opens a transaction, DROP / ALTER /    *)
(* PRAGMA user_version then run inside it, commit() makes it durable.  A   *)
(* kill loses the open transaction (journal rollback on the next open).    *)
(* shutil.copy2 of the backup is two visible steps: the file exists (torn) *)
(* and the file is complete.                                               *)
(***************************************************************************)
EXTENDS Naturals, FiniteSets, TLC

CONSTANTS NRows,      \* rows of the v1 index: 1..NRows
          MaxCrashes, \* how often the process may be killed
          CheckTmpTable,   \* BOOLEAN: the migration tolerates a left-over version_index_new (a repaired migration)
          AtomicBackup     \* BOOLEAN: the backup appears atomically (copy to a temporary name + rename)

Orig == 1..NRows

(* a database image: format number + tables; "old" = version_index with the v1 schema, "new" = version_index_new (v2   *)
(* schema), "cur" = version_index with the v2 schema; absent tables are not in the domain                            *)
Tables == {"old", "new", "cur"}
\* @type: { fmt: Int, tabs: Str -> Set(Int) };
EmptyDb == [fmt |-> 1, tabs |-> [t \in {"old"} |-> Orig]]

VARIABLES D,        \* durable image
          W,        \* image as the connection sees it (D + the open transaction)
          inTxn,
          backup,   \* "absent" | "torn" | "full"
          pc,
          crashes,
          outcome   \* of the last finished invocation: "none" | "ok" | "error" | "killed"

vars == <<D, W, inTxn, backup, pc, crashes, outcome>>

\* (the type comments below are for Apalache, see MC_Migration.tla; TLC ignores them)
\* @type: ({ fmt: Int, tabs: Str -> Set(Int) }, Str) => Bool;
Has(db, t) == t \in DOMAIN db.tabs
\* @type: ({ fmt: Int, tabs: Str -> Set(Int) }, Str, Set(Int)) => { fmt: Int, tabs: Str -> Set(Int) };
With(db, t, rows) == [db EXCEPT !.tabs = [x \in DOMAIN db.tabs \cup {t} |-> IF x = t THEN rows ELSE db.tabs[x]]]
\* @type: ({ fmt: Int, tabs: Str -> Set(Int) }, Str) => { fmt: Int, tabs: Str -> Set(Int) };
Without(db, t) == [db EXCEPT !.tabs = [x \in DOMAIN db.tabs \ {t} |-> db.tabs[x]]]

Init == /\ D = EmptyDb /\ W = EmptyDb /\ inTxn = FALSE /\ backup = "absent" /\ pc = "open" /\ crashes = 0
        /\ outcome = "none"

(* create_or_load: read PRAGMA user_version *)
Open == /\ pc = "open"
        /\ pc' = IF W.fmt = 1 THEN "backup_check" ELSE "load"
        /\ UNCHANGED <<D, W, inTxn, backup, crashes, outcome>>

BackupCheck == /\ pc = "backup_check"
               /\ pc' = IF backup = "absent" THEN "copy" ELSE "create"
               /\ UNCHANGED <<D, W, inTxn, backup, crashes, outcome>>

(* shutil.copy2: the destination is created and filled, then its metadata are copied *)
CopyStart == /\ pc = "copy" /\ backup = "absent"
             /\ backup' = IF AtomicBackup THEN "full" ELSE "torn"
             /\ pc' = IF AtomicBackup THEN "create" ELSE "copy_rest"
             /\ UNCHANGED <<D, W, inTxn, crashes, outcome>>
CopyRest == /\ pc = "copy_rest" /\ backup' = "full" /\ pc' = "create"
            /\ UNCHANGED <<D, W, inTxn, crashes, outcome>>

(* CREATE TABLE version_index_new: no transaction is open, so it is committed at once; it fails if the table exists *)
Create == /\ pc = "create"
          /\ IF Has(W, "new")
             THEN IF CheckTmpTable
                  THEN /\ D' = With(D, "new", {}) /\ W' = With(W, "new", {}) /\ pc' = "insert" /\ outcome' = outcome
                  ELSE /\ pc' = "done" /\ outcome' = "error" /\ UNCHANGED <<D, W>>
             ELSE /\ D' = With(D, "new", {}) /\ W' = With(W, "new", {}) /\ pc' = "insert" /\ outcome' = outcome
          /\ UNCHANGED <<inTxn, backup, crashes>>

(* INSERT INTO version_index_new SELECT ... FROM version_index: opens the transaction *)
Insert == /\ pc = "insert" /\ inTxn' = TRUE /\ W' = With(W, "new", W.tabs["old"]) /\ pc' = "drop"
          /\ UNCHANGED <<D, backup, crashes, outcome>>
Drop == /\ pc = "drop" /\ W' = Without(W, "old") /\ pc' = "rename"
        /\ UNCHANGED <<D, inTxn, backup, crashes, outcome>>
Rename == /\ pc = "rename" /\ W' = Without(With(W, "cur", W.tabs["new"]), "new") /\ pc' = "pragma"
          /\ UNCHANGED <<D, inTxn, backup, crashes, outcome>>
Pragma == /\ pc = "pragma" /\ W' = [W EXCEPT !.fmt = 2] /\ pc' = "commit"
          /\ UNCHANGED <<D, inTxn, backup, crashes, outcome>>
Commit == /\ pc = "commit" /\ D' = W /\ inTxn' = FALSE /\ pc' = "load"
          /\ UNCHANGED <<W, backup, crashes, outcome>>
(* the rest of create_or_load (SELECT MAX(timestamp)) and of the command: reads only *)
Load == /\ pc = "load" /\ pc' = "done" /\ outcome' = "ok"
        /\ UNCHANGED <<D, W, inTxn, backup, crashes>>

(* the process is killed; the next invocation starts from the durable image *)
Crash == /\ pc \notin {"open", "done"} /\ crashes < MaxCrashes
         /\ W' = D /\ inTxn' = FALSE /\ pc' = "open" /\ crashes' = crashes + 1 /\ outcome' = "killed"
         /\ UNCHANGED <<D, backup>>

(* the next command opens the index again *)
Again == /\ pc = "done" /\ outcome \in {"ok", "error"} /\ crashes < MaxCrashes
         /\ pc' = "open" /\ crashes' = crashes + 1 /\ W' = D
         /\ UNCHANGED <<D, inTxn, backup, outcome>>

Step == Open \/ BackupCheck \/ CopyStart \/ CopyRest \/ Create \/ Insert \/ Drop \/ Rename \/ Pragma \/ Commit \/ Load
Next == Step \/ Crash \/ Again \/ (pc = "done" /\ UNCHANGED vars)
Spec == Init /\ [][Next]_vars /\ WF_vars(Step)

(***************************************************************************)
(* Properties                                                              *)
(***************************************************************************)
(* the recorded versions are never lost: at every instant the durable image holds them, in the old or the new table *)
NoVersionLost == \/ (D.fmt = 1 /\ Has(D, "old") /\ D.tabs["old"] = Orig)
                 \/ (D.fmt = 2 /\ Has(D, "cur") /\ D.tabs["cur"] = Orig)
(* a finished migration leaves exactly the v2 table *)
MigratedExactly == (pc = "done" /\ outcome = "ok") => (D.fmt = 2 /\ DOMAIN D.tabs = {"cur"} /\ D.tabs["cur"] = Orig)
(* an index that was migrated has a complete backup of its v1 form next to it *)
BackupFaithful == D.fmt = 2 => backup = "full"
(* no invocation ends in an error: a killed migration can always be resumed *)
Resumable == outcome # "error"
(* ... and is eventually completed when the command is run again *)
EventuallyMigrated == <>(pc = "done" /\ (outcome = "error" \/ D.fmt = 2))
=============================================================================
