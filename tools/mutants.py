#!/venv/bin/python
"""Sensitivity self-check (development aid, not a registered command).

Applies each catalogued mutant (a small textual change that compiles and keeps the baseline tests green) to /repo,
runs the quick check of the properties it is expected to break, and restores /repo.
Usage: tools/mutants.py [name-substring ...] [--props C01,C03]
"""
import json
import os
import subprocess
import sys
import time

REPO = "/repo"
SRC = os.path.join(REPO, "src/conductor")

# (name, file, old, new, [properties expected to report a violation])
MUTANTS = [
    ("enqueue_at_le1", "execution/executor.py", "if dep_of.waiting_on > 0:", "if dep_of.waiting_on > 1:", ["C03"]),
    ("slot_gate_le", "execution/executor.py", "and len(self._inflight_ops) < self._slots",
     "and len(self._inflight_ops) <= self._slots", ["C04"]),
    ("skipped_is_success", "execution/ops/operation.py",
     "            or self.state == OperationState.SUCCEEDED_CACHED\n",
     "            or self.state == OperationState.SUCCEEDED_CACHED\n            or self.state == OperationState.SKIPPED\n",
     ["C03"]),
    ("deps_always_ok", "execution/ops/operation.py",
     "return all(map(lambda task: task.succeeded(), self.exe_deps))", "return True", ["C01", "C03"]),
    ("planner_link_first_dep_only", "execution/planning/planner.py", "                for dep in lt.deps:\n",
     "                for dep in lt.deps[:1]:\n", ["C01"]),
    ("no_reset_running_parallel", "execution/executor.py", "self._running_parallel = next_op.parallelizable",
     "self._running_parallel = self._running_parallel or next_op.parallelizable", ["C04"]),
    ("slot_env_always", "execution/ops/run_task_executable.py", "            if slot is not None:\n",
     "            if True:\n", ["C04"]),
    ("slot_not_popped", "execution/executor.py", "                    if slot is not None:\n                        self._available_slots.pop()\n",
     "", ["C04"]),
    ("exit0_on_failure", "execution/executor.py", "            raise failed_task_ops[0].stored_error\n", "            return\n", ["C03"]),
    ("signal_is_success", "utils/sigchld.py", "returncode = os.WTERMSIG(status)", "returncode = os.WEXITSTATUS(status)", ["C03"]),
    ("stop_early_ignored_on_launch", "execution/executor.py", "                    if stop_on_first_error:\n                        return True\n", "", ["C03"]),
    ("no_terminate", "execution/executor.py", "            self._inflight_ops.terminate_processes()\n\n            # 3. Report", "            pass\n\n            # 3. Report", ["C03"]),
    ("pop_wrong_end", "utils/sigchld.py", "return self._returncodes.pop()", "return self._returncodes.pop(0)", []),
    ("lost_wakeup", "utils/sigchld.py", "        self._returncodes.append((pid, returncode))\n        os.write(self._write_pipe, b\"\\0\")\n",
     "        if not self._returncodes:\n            os.write(self._write_pipe, b\"\\0\")\n        self._returncodes.append((pid, returncode))\n", ["C09"]),
    ("handler_reaps_one", "utils/sigchld.py", "                SigchldHelper.instance()._add_returncode(pid, returncode)\n",
     "                SigchldHelper.instance()._add_returncode(pid, returncode)\n                break\n", ["C09"]),
    ("drop_popen", "execution/ops/run_task_executable.py", "            handle.process = process\n", "", ["C09"]),
    ("unknown_pid_not_ignored", "execution/executor.py", "            if pid in self._processes:\n                break\n", "            break\n", ["C09"]),
    ("visited_on_pop", "execution/planning/planner.py", "                if lt.task.identifier in visited:\n", "                if False:\n", ["C02"]),
    ("again_not_propagated", "execution/planning/planner.py", "if not run_again and not lt.task.should_run(self._ctx, at_least_commit):",
     "if not (run_again and lt is root) and not lt.task.should_run(self._ctx, at_least_commit):", ["C02"]),
    ("num_tasks_per_dequeue", "execution/planning/planner.py", "                num_tasks_to_run += 1\n", "                num_tasks_to_run += 1 + len(lt.deps) * 0 + (1 if isinstance(lt.task, Group) else 0)\n", ["C02"]),
]


def run(cmd, **kw):
    return subprocess.run(cmd, shell=True, capture_output=True, text=True, **kw)


def main():
    args = [a for a in sys.argv[1:] if not a.startswith("--")]
    props_override = None
    for a in sys.argv[1:]:
        if a.startswith("--props="):
            props_override = a.split("=", 1)[1].split(",")
    assert run("git -C %s status --porcelain" % REPO).stdout.strip() == "", "/repo is dirty"
    results = []
    for name, rel, old, new, props in MUTANTS:
        if args and not any(a in name for a in args):
            continue
        path = os.path.join(SRC, rel)
        src = open(path).read()
        if src.count(old) < 1:
            print("MUTANT %s: pattern not found" % name)
            continue
        try:
            open(path, "w").write(src.replace(old, new, 1))
            comp = run("/venv/bin/python -m py_compile %s" % path)
            if comp.returncode != 0:
                print("MUTANT %s: does not compile" % name)
                continue
            for p in (props_override or props):
                t0 = time.time()
                r = run("cd /verif && timeout 900 ./check %s --tier quick" % p)
                caught = r.returncode == 1 and "VIOLATION property=%s" % p in r.stdout
                first = [l for l in r.stdout.splitlines() if l.strip().startswith("clause=")][:1]
                print("MUTANT %-28s %s -> %s (rc=%d, %.0fs) %s" % (name, p, "CAUGHT" if caught else "MISSED", r.returncode,
                                                               time.time() - t0, first[0].strip()[:150] if first else ""))
                if r.returncode == 2:
                    print(r.stderr[-800:])
                results.append((name, p, caught))
        finally:
            open(path, "w").write(src)
    run("git -C %s checkout -- ." % REPO)
    missed = [r for r in results if not r[2]]
    print("mutants: %d runs, %d missed" % (len(results), len(missed)))
    return 0


if __name__ == "__main__":
    sys.exit(main())
