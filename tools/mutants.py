#!/venv/bin/python
"""Sensitivity self-check (development aid, not a registered command).

Applies each catalogued mutant (a small textual change that compiles and keeps the baseline tests green) to /repo,
runs the quick check of the properties it is expected to break, and restores /repo.
Usage: tools/mutants.py [name-substring ...] [--props C01,C03]
"""
import json
import os
import subprocess
import sys
import time

REPO = "/repo"
SRC = os.path.join(REPO, "src/conductor")

# (name, file, old, new, [properties expected to report a violation])
MUTANTS = [
    ("enqueue_at_le1", "execution/executor.py", "if dep_of.waiting_on > 0:", "if dep_of.waiting_on > 1:", ["C03"]),
    ("slot_gate_le", "execution/executor.py", "and len(self._inflight_ops) < self._slots",
     "and len(self._inflight_ops) <= self._slots", ["C04"]),
    ("skipped_is_success", "execution/ops/operation.py",
     "            or self.state == OperationState.SUCCEEDED_CACHED\n",
     "            or self.state == OperationState.SUCCEEDED_CACHED\n            or self.state == OperationState.SKIPPED\n",
     ["C03"]),
    ("deps_always_ok", "execution/ops/operation.py",
     "return all(map(lambda task: task.succeeded(), self.exe_deps))", "return True", ["C01", "C03"]),
    ("planner_link_first_dep_only", "execution/planning/planner.py", "                for dep in lt.deps:\n",
     "                for dep in lt.deps[:1]:\n", ["C01"]),
    ("no_reset_running_parallel", "execution/executor.py", "self._running_parallel = next_op.parallelizable",
     "self._running_parallel = self._running_parallel or next_op.parallelizable", ["C04"]),
    ("slot_env_always", "execution/ops/run_task_executable.py", "            if slot is not None:\n",
     "            if True:\n", ["C04"]),
    ("slot_not_popped", "execution/executor.py", "                    if slot is not None:\n                        self._available_slots.pop()\n",
     "", ["C04"]),
    ("exit0_on_failure", "execution/executor.py", "            raise failed_task_ops[0].stored_error\n", "            return\n", ["C03"]),
    ("signal_is_success", "utils/sigchld.py", "returncode = os.WTERMSIG(status)", "returncode = os.WEXITSTATUS(status)", ["C03"]),
    ("stop_early_ignored_on_launch", "execution/executor.py", "                    if stop_on_first_error:\n                        return True\n", "", ["C03"]),
    ("no_terminate", "execution/executor.py", "            self._inflight_ops.terminate_processes()\n\n            # 3. Report", "            pass\n\n            # 3. Report", ["C03"]),
    ("pop_wrong_end", "utils/sigchld.py", "return self._returncodes.pop()", "return self._returncodes.pop(0)", []),
    # (the protocol `lost_wakeup` used to mutate - one pipe byte per reaped child written by the Python-level handler - was
    #  replaced by the D14 repair; these two are its analogues on the wakeup-fd protocol)
    ("lost_wakeup", "utils/sigchld.py", "        existing_wakeup_fd = signal.set_wakeup_fd(\n            self._write_pipe, warn_on_full_buffer=False\n        )\n",
     "        existing_wakeup_fd = signal.set_wakeup_fd(-1)\n", ["C09"]),
    ("wait_reads_once", "utils/sigchld.py", "        while len(self._returncodes) == 0:\n            _ = os.read(self._read_pipe, 4096)\n",
     "        if len(self._returncodes) == 0:\n            _ = os.read(self._read_pipe, 1)\n", ["C09"]),
    ("handler_reaps_one", "utils/sigchld.py", "                SigchldHelper.instance()._add_returncode(pid, returncode)\n",
     "                SigchldHelper.instance()._add_returncode(pid, returncode)\n                break\n", ["C09"]),
    ("drop_popen", "execution/ops/run_task_executable.py", "            handle.process = process\n", "", ["C09"]),
    ("unknown_pid_not_ignored", "execution/executor.py", "            if pid in self._processes:\n                break\n", "            break\n", ["C09"]),
    ("visited_on_pop", "execution/planning/planner.py", "                if lt.task.identifier in visited:\n", "                if False:\n", ["C02"]),
    ("again_not_propagated", "execution/planning/planner.py", "if not run_again and not lt.task.should_run(self._ctx, at_least_commit):",
     "if not (run_again and lt is root) and not lt.task.should_run(self._ctx, at_least_commit):", ["C02"]),
    ("record_before_rc_check", "execution/ops/run_task_executable.py",
     "        assert handle.returncode is not None\n        if handle.returncode != 0:",
     "        assert handle.returncode is not None\n        if self._version_to_record is not None:\n            ctx.version_index.insert_output_version(self._identifier, self._version_to_record)\n            ctx.version_index.commit_changes()\n            self._version_to_record = None\n        if handle.returncode != 0:", ["C06"]),
    ("restore_commit_first", "cli/restore.py", "        # Copy over all archived task outputs\n",
     "        ctx.version_index.commit_changes()\n        # Copy over all archived task outputs\n", ["C12", "C06"]),
    ("restore_no_rollback", "cli/restore.py", "        ctx.version_index.rollback_changes()\n        raise\n", "        ctx.version_index.commit_changes()\n        raise\n", ["C12"]),
    ("restore_overwrite", "cli/restore.py", "shutil.copytree(src_task_path, dest_task_path, symlinks=True)",
     "shutil.copytree(src_task_path, dest_task_path, symlinks=True, dirs_exist_ok=True)", ["C12"]),
    ("restore_stale_staging", "cli/restore.py", "        shutil.rmtree(staging_path, ignore_errors=True)\n        staging_path.mkdir(exist_ok=True)", "        staging_path.mkdir(exist_ok=True)", ["C12"]),
    ("gc_name_only", "cli/gc.py", "            if (task_identifier, timestamp) not in all_versions:",
     "            if (task_name, timestamp) not in {(i.name, t) for i, t in all_versions}:", ["C13"]),
    ("gc_descends_into_tasks", "cli/gc.py", "                if _REGULAR_TASK_REGEX.match(inner.name) is None:", "                if True:", ["C13"]),
    ("gc_dry_run_deletes", "cli/gc.py", "        if args.dry_run:\n", "        if args.dry_run and args.verbose:\n", ["C13"]),
    ("gc_follows_symlinks", "cli/gc.py", "            if not inner.is_dir() or inner.is_symlink():", "            if not inner.is_dir():", ["C13"]),
    ("ts_no_bump_on_equal", "execution/version_index.py", "        if timestamp == self._last_timestamp:\n            timestamp += 1\n        elif", "        if", ["C08"]),
    ("ts_seed_zero", "execution/version_index.py", "                    result[0] if result is not None and result[0] is not None else 0", "                    0", ["C08"]),
    ("reuse_existing_dir", "task_types/run.py", "            if output_path is None or not output_path.exists():\n                break", "            break", ["C08"]),
    ("latest_picks_min", "execution/version_index_queries.py", "    SELECT task_identifier, MAX(timestamp) AS timestamp", "    SELECT task_identifier, MIN(timestamp) AS timestamp", ["C11"]),
    ("archive_closure_all_types", "cli/archive.py", "        if not task.archivable:\n            return\n", "", []),
    ("traverse_revisit", "task_types/base.py", "            if curr_identifier in visited:\n", "            if False:\n", ["C11"]),
    ("bulk_load_drops_dirty", "execution/version_index.py", "        cursor.executemany(q.insert_new_version, rows)", "        cursor.executemany(q.insert_new_version, [(r[0], r[1], r[2], 0) for r in rows])", ["C11"]),
    ("restore_follow_symlinks", "cli/restore.py", "symlinks=True)", "symlinks=False)", ["C11"]),
    ("deps_paths_dot", "lib/path.py", "        if len(path) > 0\n", "", ["C07"]),
    ("cwd_project_root", "task_types/base.py", "        return pathlib.Path(ctx.project_root, self._identifier.path)", "        return pathlib.Path(ctx.project_root)", ["C07"]),
    ("options_before_args", "execution/ops/run_task_executable.py", "[run, self._args.serialize_cmdline(), self._options.serialize_cmdline()]", "[run, self._options.serialize_cmdline(), self._args.serialize_cmdline()]", ["C07"]),
    ("deps_reversed", "task_types/base.py", "        for dep_identifier in self.deps:\n            path =", "        for dep_identifier in reversed(self.deps):\n            path =", ["C07"]),
    ("validator_skips_list_items", "parsing/validation.py", "                if not all(item_valid):", "                if False:", ["C15"]),
    ("options_value_unchecked", "utils/run_options.py", "                raise RunOptionsNonPrimitiveValue(identifier=identifier, key=key)", "                pass", ["C15"]),
    ("generic_exception_unmapped", "parsing/task_loader.py", "        except Exception as ex:\n            run_err = TaskParseError(error_details=str(ex))\n            run_err.add_file_context(file_path=self._to_project_path(cond_file_path))\n            raise run_err from ex\n        finally:", "        finally:", ["C15"]),
    ("dup_task_name_allowed", "parsing/task_loader.py", "            if raw_task[\"name\"] in self._tasks:\n                raise DuplicateTaskName(task_name=raw_task[\"name\"])\n", "", ["C15"]),
    ("include_outside_allowed", "parsing/task_loader.py", "            raise IncludeFileNotInProject(included_file=candidate_path) from ex", "            pass", ["C15"]),
    ("combine_dup_names_allowed", "task_types/combine.py", "            if dep.name in task_names:", "            if False:", ["C15"]),
    ("group_chain_wrong_prev", "task_types/stdlib/run_experiment_group.py", "            prev_experiment_identifier = experiment_identifier\n", "            prev_experiment_identifier = prev_experiment_identifier or experiment_identifier\n", ["C19"]),
    ("group_drops_parallelizable", "task_types/stdlib/run_experiment_group.py", "                parallelizable=experiment.parallelizable,\n", "", ["C19"]),
    ("group_deps_after_chain", "task_types/stdlib/run_experiment_group.py", "experiment_deps = [*task_deps, prev_experiment_identifier]", "experiment_deps = [prev_experiment_identifier, *task_deps]", ["C19"]),
    ("isancestor_swapped", "utils/git.py", "                candidate_ancestor_hash,\n                commit_hash,\n", "                commit_hash,\n                candidate_ancestor_hash,\n", ["C05"]),
    ("distance_prefers_far", "task_types/run.py", "                if selected_version is None or dist < closest_distance:", "                if selected_version is None or dist > closest_distance:", ["C05"]),
    ("tie_prefers_older", "task_types/run.py", "                    and v.timestamp > selected_version.timestamp", "                    and v.timestamp < selected_version.timestamp", ["C05"]),
    ("fallback_with_foreign_commits", "task_types/run.py", "            len(null_commit_versions) == len(existing_versions)\n            and len(null_commit_versions) > 0", "            len(null_commit_versions) > 0", ["C05"]),
    ("atleast_equal_is_older", "task_types/run.py", "        if self._most_relevant_version.commit_hash == at_least_commit:\n", "        if False:\n", ["C05"]),
    ("atleast_no_peel", "cli/run.py", "\"{}^{{commit}}\".format(", "\"{}\".format(", ["C05"]),
    ("combine_links_empty_too", "execution/ops/combine_outputs.py", "                or not any(True for _ in dep_dir.iterdir())\n", "", ["C18"]),
    ("combine_overwrites_conflict", "execution/ops/combine_outputs.py", "                    raise CombineOutputFileConflict(output_file=str(copy_into))", "                    import shutil; shutil.rmtree(copy_into, ignore_errors=True) if copy_into.is_dir() else copy_into.unlink()", ["C18"]),
    ("combine_keeps_old_link", "execution/ops/combine_outputs.py", "                if copy_into.is_symlink():\n                    copy_into.unlink()\n", "                if copy_into.is_symlink():\n                    continue\n", ["C18"]),
    ("abort_no_terminate", "execution/executor.py", "        except ConductorAbort:\n            self._inflight_ops.terminate_processes()\n", "        except ConductorAbort:\n", ["C16"]),
    ("abort_unbound_process", "execution/ops/run_task_executable.py", "        process = None\n        try:", "        try:", ["C16"]),
    ("gc_relative_to_cwd", "cli/gc.py", "    try:\n        return str(path.relative_to(cwd))\n    except ValueError:\n        return str(path)", "    return str(path.relative_to(cwd))", ["C17"]),
    ("root_from_topmost", "context.py", "            if maybe_config_path.is_file():\n                return cls(project_root=path)", "            if maybe_config_path.is_file():\n                found = path\n        if 'found' in dir():\n                return cls(project_root=found)", []),
    ("ident_dollar_anchor", "task_identifier.py", "_NAME_REGEX = re.compile(\"^{}\\\\Z\".format(IDENTIFIER_GROUP))", "_NAME_REGEX = re.compile(\"^{}$\".format(IDENTIFIER_GROUP))", ["C20"]),
    ("ident_allows_dot", "task_identifier.py", "IDENTIFIER_GROUP = \"[a-zA-Z0-9_-]+\"", "IDENTIFIER_GROUP = \"[a-zA-Z0-9_.-]+\"", ["C20"]),
    ("loader_skip_cycle_check", "parsing/task_index.py", "                if identifier in curr_path:\n                    # The user's dependency graph contains a cycle", "                if False:\n                    # The user's dependency graph contains a cycle", ["C14"]),
    ("loader_visited_on_push", "parsing/task_index.py", "                    if dep in visited_identifiers:\n                        continue\n                    identifiers_to_load.append((dep, 0))", "                    if dep in visited_identifiers or dep in curr_path and False:\n                        continue\n                    visited_identifiers.add(dep)\n                    identifiers_to_load.append((dep, 0))", ["C14"]),
    ("roots_count_once", "parsing/task_index.py", "                    if dep_id in root_candidates:\n                        root_candidates[dep_id] += 1", "                    if dep_id in root_candidates and dep_id in visited:\n                        root_candidates[dep_id] += 1", ["C14"]),
    ("dequeue_sequential_first", "execution/executor.py", "        if self.has_parallelizable_ops():\n            return self._parallel_ops.popleft()\n        else:\n            return self._sequential_ops.popleft()",
     "        if len(self._sequential_ops) > 0:\n            return self._sequential_ops.popleft()\n        else:\n            return self._parallel_ops.popleft()", []),
    ("num_tasks_per_dequeue", "execution/planning/planner.py", "                num_tasks_to_run += 1\n", "                num_tasks_to_run += 1 + len(lt.deps) * 0 + (1 if isinstance(lt.task, Group) else 0)\n", ["C02"]),
]


# Behaviour-preserving refactorings: every check must stay silent on them (exit 0). (name, [(file, old, new), ...])
BENIGN = [
    ("ready_queue_as_lists", [("execution/executor.py", "self._sequential_ops: Deque[Operation] = collections.deque()", "self._sequential_ops = []"),
                              ("execution/executor.py", "self._parallel_ops: Deque[Operation] = collections.deque()", "self._parallel_ops = []"),
                              ("execution/executor.py", "return self._parallel_ops.popleft()", "return self._parallel_ops.pop(0)"),
                              ("execution/executor.py", "return self._sequential_ops.popleft()", "return self._sequential_ops.pop(0)")]),
    ("pipe_byte_and_extra_logging", [("utils/sigchld.py", "_ = os.read(self._read_pipe, 4096)", "_ = os.read(self._read_pipe, 512)"),
                                     ("execution/executor.py", "            self._ready_to_run.load(plan.initial_ops)\n", "            self._ready_to_run.load(plan.initial_ops)\n            print_bold(\"Planned {} task(s).\".format(plan.num_tasks_to_run))\n")]),
    ("gc_with_os_walk_order", [("cli/gc.py", "        for inner in curr_path.iterdir():", "        for inner in sorted(curr_path.iterdir(), reverse=True):")]),
    ("restore_copy2_and_sorted_rows", [("cli/restore.py", "shutil.copytree(src_task_path, dest_task_path, symlinks=True)", "shutil.copytree(src_task_path, dest_task_path, symlinks=True, copy_function=shutil.copy2)"),
                                       ("cli/restore.py", "        for task_id, version in archive_version_index.get_all_versions():", "        for task_id, version in sorted(archive_version_index.get_all_versions(), key=lambda tv: (str(tv[0]), tv[1].timestamp)):")]),
    ("planner_visited_ids_and_handle_fields", [("execution/handle.py", "        self.slot: Optional[int] = None\n", "        self.slot: Optional[int] = None\n        self.started_at = None\n"),
                                               ("task_types/run.py", "        if at_least_commit is None:\n            # There already is", "        if not at_least_commit:\n            # There already is")]),
    ("loader_iterative_to_explicit_copy", [("parsing/task_index.py", "                for dep in self._loaded_tasks[identifier].deps:\n                    if dep in visited_identifiers:\n                        continue\n                    identifiers_to_load.append((dep, 0))",
                                            "                pending = [dep for dep in self._loaded_tasks[identifier].deps if dep not in visited_identifiers]\n                identifiers_to_load.extend((dep, 0) for dep in pending)")]),
]


def run_benign():
    import shutil
    checks = ["C%02d" % i for i in range(1, 21)]
    for a in sys.argv[1:]:
        if a.startswith("--props="):
            checks = a.split("=", 1)[1].split(",")
    sel = [a for a in sys.argv[1:] if not a.startswith("--")]
    bad = 0
    for name, edits in BENIGN:
        if sel and not any(a in name for a in sel):
            continue
        base = "/dev/shm/cvben_%s" % name
        shutil.rmtree(base, ignore_errors=True)
        shutil.copytree(os.path.join(REPO, "src"), os.path.join(base, "src"), ignore=shutil.ignore_patterns("__pycache__", "static"), symlinks=True)
        ok = True
        for rel, old, new in edits:
            path = os.path.join(base, "src/conductor", rel)
            src = open(path).read()
            if old not in src:
                print("BENIGN %s: pattern not found in %s" % (name, rel))
                ok = False
                break
            open(path, "w").write(src.replace(old, new, 1))
            if run("/venv/bin/python -m py_compile %s" % path).returncode != 0:
                print("BENIGN %s: does not compile" % name)
                ok = False
                break
        if ok:
            t = run("cd %s && PYTHONPATH=%s/src /venv/bin/python -m pytest -q -p no:cacheprovider -x tests/task_identifier_test.py tests/validation_test.py tests/version_index_migration_test.py" % (REPO, base))
            for c in checks:
                t0 = time.time()
                r = run("cd /verif && VERIF_SUBJECT_SRC=%s/src timeout 1800 ./check %s --tier quick" % (base, c))
                drift = sum(1 for l in r.stdout.splitlines() if l.startswith("MODEL-DRIFT"))
                flag = "ok" if r.returncode == 0 else "ALARM rc=%d" % r.returncode
                if r.returncode != 0:
                    bad += 1
                print("BENIGN %-40s %s -> %s drift=%d (%.0fs) %s" % (name, c, flag, drift, time.time() - t0,
                                                                  " | ".join(l.strip()[:160] for l in (r.stdout + r.stderr).splitlines() if "clause=" in l or "MACHINERY" in l)[:400]))
                sys.stdout.flush()
        shutil.rmtree(base, ignore_errors=True)
    print("benign: %d alarms" % bad)
    return 0


def run(cmd, **kw):
    return subprocess.run(cmd, shell=True, capture_output=True, text=True, **kw)


def run_on_copy(name, rel, old, new, props):
    """Apply the mutant to a scratch copy of the sources and run the checks against it (VERIF_SUBJECT_SRC)."""
    import shutil
    base = "/dev/shm/cvmut_%s" % name
    shutil.rmtree(base, ignore_errors=True)
    shutil.copytree(os.path.join(REPO, "src"), os.path.join(base, "src"), ignore=shutil.ignore_patterns("__pycache__", "static"), symlinks=True)
    path = os.path.join(base, "src/conductor", rel)
    src = open(path).read()
    out = []
    try:
        if src.count(old) < 1:
            return [(name, "-", None, "pattern not found")]
        open(path, "w").write(src.replace(old, new, 1))
        if run("/venv/bin/python -m py_compile %s" % path).returncode != 0:
            return [(name, "-", None, "does not compile")]
        for p in props:
            t0 = time.time()
            r = run("cd /verif && VERIF_SUBJECT_SRC=%s/src timeout 1200 ./check %s --tier quick" % (base, p))
            caught = r.returncode == 1 and "VIOLATION property=%s" % p in r.stdout
            first = [l for l in r.stdout.splitlines() if l.strip().startswith("clause=")][:1]
            out.append((name, p, caught, "rc=%d %.0fs %s %s" % (r.returncode, time.time() - t0,
                                                              first[0].strip()[:140] if first else "",
                                                              r.stderr[-300:] if r.returncode == 2 else "")))
    finally:
        shutil.rmtree(base, ignore_errors=True)
    return out


def main():
    if "--benign" in sys.argv:
        return run_benign()
    if "--copy" in sys.argv:
        args = [a for a in sys.argv[1:] if not a.startswith("--")]
        props_override = None
        for a in sys.argv[1:]:
            if a.startswith("--props="):
                props_override = a.split("=", 1)[1].split(",")
        sel = [m for m in MUTANTS if not args or any(a in m[0] for a in args)]
        from concurrent.futures import ThreadPoolExecutor
        with ThreadPoolExecutor(max_workers=3) as ex:
            futs = [ex.submit(run_on_copy, m[0], m[1], m[2], m[3], props_override or m[4]) for m in sel]
            missed = 0
            for f in futs:
                for name, p, caught, info in f.result():
                    print("MUTANT %-30s %s -> %s %s" % (name, p, "CAUGHT" if caught else "MISSED", info))
                    sys.stdout.flush()
                    missed += 0 if caught else 1
        print("missed: %d" % missed)
        return 0
    args = [a for a in sys.argv[1:] if not a.startswith("--")]
    props_override = None
    for a in sys.argv[1:]:
        if a.startswith("--props="):
            props_override = a.split("=", 1)[1].split(",")
    assert run("git -C %s status --porcelain" % REPO).stdout.strip() == "", "/repo is dirty"
    results = []
    for name, rel, old, new, props in MUTANTS:
        if args and not any(a in name for a in args):
            continue
        path = os.path.join(SRC, rel)
        src = open(path).read()
        if src.count(old) < 1:
            print("MUTANT %s: pattern not found" % name)
            continue
        try:
            open(path, "w").write(src.replace(old, new, 1))
            comp = run("/venv/bin/python -m py_compile %s" % path)
            if comp.returncode != 0:
                print("MUTANT %s: does not compile" % name)
                continue
            for p in (props_override or props):
                t0 = time.time()
                r = run("cd /verif && timeout 900 ./check %s --tier quick" % p)
                caught = r.returncode == 1 and "VIOLATION property=%s" % p in r.stdout
                first = [l for l in r.stdout.splitlines() if l.strip().startswith("clause=")][:1]
                print("MUTANT %-28s %s -> %s (rc=%d, %.0fs) %s" % (name, p, "CAUGHT" if caught else "MISSED", r.returncode,
                                                               time.time() - t0, first[0].strip()[:150] if first else ""))
                if r.returncode == 2:
                    print(r.stderr[-800:])
                results.append((name, p, caught))
        finally:
            open(path, "w").write(src)
    run("git -C %s checkout -- ." % REPO)
    missed = [r for r in results if not r[2]]
    print("mutants: %d runs, %d missed" % (len(results), len(missed)))
    return 0


if __name__ == "__main__":
    sys.exit(main())
