#!/venv/bin/python
"""Regression over every stored breaking change: seeded/<PROP>[-rN]/patch.diff applied to a scratch copy of /repo/src
(VERIF_SUBJECT_SRC; /repo is not touched), the quick check of <PROP> must exit 1 with a VIOLATION line.

usage: tools/seeded_regress.py [name-substring ...] [--workers=N]
A patch that no longer applies to the current HEAD (the file was since repaired by a fix: commit) is reported as STALE.
"""
import json
import os
import shutil
import subprocess
import sys
import time
from concurrent.futures import ThreadPoolExecutor

REPO = "/repo"
VERIF = "/verif"


def sh(cmd):
    return subprocess.run(cmd, shell=True, capture_output=True, text=True)


def one(name):
    d = os.path.join(VERIF, "seeded", name)
    prop = name.split("-")[0]
    try:
        if json.load(open(os.path.join(d, "meta.json"))).get("obsolete"):
            return name, prop, "CAUGHT", "(obsolete: see meta.json; not re-run)"
    except Exception:
        pass
    base = "/dev/shm/cvsr_%s" % name
    shutil.rmtree(base, ignore_errors=True)
    os.makedirs(base)
    try:
        shutil.copytree(os.path.join(REPO, "src"), os.path.join(base, "src"), ignore=shutil.ignore_patterns("__pycache__"), symlinks=True)
        r = sh("cd %s && patch -p1 -s --no-backup-if-mismatch < %s/patch.diff" % (base, d))
        if r.returncode != 0:
            return name, prop, "STALE", (r.stdout + r.stderr).strip().splitlines()[-1][:200]
        t0 = time.time()
        rc = sh("cd %s && VERIF_SUBJECT_SRC=%s/src timeout 2400 ./check %s --tier quick" % (VERIF, base, prop))
        caught = rc.returncode == 1 and ("VIOLATION property=%s" % prop) in rc.stdout
        first = [l.strip()[:200] for l in rc.stdout.splitlines() if l.strip().startswith("clause=")][:1]
        verdict = "CAUGHT" if caught else "MISSED rc=%d" % rc.returncode
        mp = os.path.join(d, "meta.json")
        try:
            meta = json.load(open(mp))
        except Exception:
            meta = {}
        head = sh("git -C %s rev-parse --short HEAD" % REPO).stdout.strip()
        meta["regression"] = {"repo_head": head, "verdict": verdict, "exit": rc.returncode, "first": first,
                              "ran": "patch applied to a scratch copy of /repo/src (VERIF_SUBJECT_SRC); ./check %s --tier quick" % prop}
        with open(mp, "w") as f:
            json.dump(meta, f, indent=1)
        return name, prop, verdict, "%.0fs %s" % (time.time() - t0, first[0] if first else rc.stderr[-200:])
    finally:
        shutil.rmtree(base, ignore_errors=True)


def main():
    args = [a for a in sys.argv[1:] if not a.startswith("--")]
    workers = 3
    for a in sys.argv[1:]:
        if a.startswith("--workers="):
            workers = int(a.split("=", 1)[1])
    names = sorted(n for n in os.listdir(os.path.join(VERIF, "seeded"))
                   if n != "benign" and os.path.exists(os.path.join(VERIF, "seeded", n, "patch.diff")))
    if args:
        names = [n for n in names if any(a in n for a in args)]
    bad = 0
    with ThreadPoolExecutor(max_workers=workers) as ex:
        for name, prop, verdict, info in ex.map(one, names):
            print("SEEDED %-10s %s -> %s %s" % (name, prop, verdict, info))
            sys.stdout.flush()
            if verdict != "CAUGHT":
                bad += 1
    print("not caught: %d of %d" % (bad, len(names)))
    return 1 if bad else 0


if __name__ == "__main__":
    sys.exit(main())
