#!/venv/bin/python
"""False-alarm test: behaviour-preserving refactorings written by independent sub-agents.

usage: tools/refactor_intake.py <area> [--all-checks]
Reads /tmp/wt3/<area>/_refactor/refactor_{1,2,3}.diff, applies each to a scratch copy of /repo/src, runs the 37 baseline
tests and the quick checks that look at that area (VERIF_SUBJECT_SRC - /repo itself is not touched), and stores the
refactoring with the verdicts under /verif/seeded/benign/<area>_<i>/.  Every check must exit 0.
"""
import json
import os
import shutil
import subprocess
import sys
import time

REPO = "/repo"
VERIF = "/verif"
AREA_CHECKS = {
    "executor": ["C01", "C02", "C03", "C04", "C07", "C09", "C16", "C19"],
    "planner": ["C01", "C02", "C05", "C07", "C08", "C18", "C19"],
    "sigchld": ["C01", "C03", "C09", "C15", "C16"],
    "store": ["C05", "C06", "C08", "C11", "C12", "C13", "C17"],
    "loader": ["C02", "C14", "C15", "C19", "C20"],
    "runtask": ["C01", "C06", "C07", "C10", "C16", "C18"],
    "cli": ["C02", "C05", "C15", "C17"],
    "identifiers": ["C13", "C14", "C15", "C20"],
}
TESTS = ("tests/config_file_test.py tests/run_options_test.py tests/task_identifier_test.py tests/time_utils_test.py "
         "tests/validation_test.py tests/version_index_migration_test.py tests/git_test.py::test_detect_empty_repo "
         "tests/git_test.py::test_detect_no_git tests/lib_path_test.py::test_get_deps_paths_non_cond "
         "tests/lib_path_test.py::test_get_output_path_non_cond tests/lib_path_test.py::test_in_output_dir_non_cond")


def sh(cmd):
    return subprocess.run(cmd, shell=True, capture_output=True, text=True)


def main():
    area = sys.argv[1]
    checks = ["C%02d" % i for i in range(1, 21)] if "--all-checks" in sys.argv else AREA_CHECKS[area]
    which = (1, 2, 3)
    rerun = False
    srcbase, tag = "/tmp/wt3", ""
    for a in sys.argv[2:]:
        if a.startswith("--src="):
            srcbase = a.split("=", 1)[1]
        if a.startswith("--tag="):
            tag = a.split("=", 1)[1]
    for a in sys.argv[2:]:
        if a.startswith("--which="):
            which = tuple(int(x) for x in a.split("=", 1)[1].split(","))
        if a.startswith("--checks="):
            checks = a.split("=", 1)[1].split(",")
            rerun = True
    src = "%s/%s/_refactor" % (srcbase, area)
    if not os.path.isdir(src):
        src = None
    alarms = 0
    for i in which:
        dst = os.path.join(VERIF, "seeded", "benign", "%s_%s%d" % (area, tag, i))
        if src:
            diff = os.path.join(src, "refactor_%d.diff" % i)
            if not os.path.exists(diff) or os.path.getsize(diff) == 0:
                print("REFACTOR %s_%d: no diff" % (area, i))
                continue
            os.makedirs(dst, exist_ok=True)
            shutil.copy(diff, os.path.join(dst, "refactor.diff"))
            md = os.path.join(src, "refactor_%d.md" % i)
            if os.path.exists(md):
                shutil.copy(md, os.path.join(dst, "README.md"))
        diff = os.path.join(dst, "refactor.diff")          # the stored copy (the sub-agent's worktree may be gone)
        base = "/dev/shm/cvref_%s_%s%d" % (area, tag, i)
        shutil.rmtree(base, ignore_errors=True)
        os.makedirs(base)
        shutil.copytree(os.path.join(REPO, "src"), os.path.join(base, "src"), ignore=shutil.ignore_patterns("__pycache__", "static"), symlinks=True)
        shutil.copytree(os.path.join(REPO, "tests"), os.path.join(base, "tests"), ignore=shutil.ignore_patterns("__pycache__"))
        for f in ("pytest.ini", "setup.py", "pyproject.toml"):
            if os.path.exists(os.path.join(REPO, f)):
                shutil.copy(os.path.join(REPO, f), base)
        meta = {"area": area, "n": i, "checks": {}}
        old_meta = None
        if rerun and os.path.exists(os.path.join(dst, "meta.json")):
            old_meta = json.load(open(os.path.join(dst, "meta.json")))
        r = sh("cd %s && patch -p1 -s < %s" % (base, diff))
        meta["applies"] = r.returncode == 0
        if r.returncode != 0:
            meta["apply_error"] = (r.stdout + r.stderr)[-400:]
        else:
            t = sh("cd %s && PYTHONPATH=%s/src /venv/bin/python -m pytest -q -p no:cacheprovider --timeout=900 %s" % (base, base, TESTS))
            meta["baseline_tests"] = (t.stdout.strip().splitlines() or ["?"])[-1]
            for c in checks:
                t0 = time.time()
                rc = sh("cd %s && VERIF_SUBJECT_SRC=%s/src timeout 2400 ./check %s --tier quick" % (VERIF, base, c))
                drift = sum(1 for l in rc.stdout.splitlines() if l.startswith("MODEL-DRIFT"))
                viol = [l.strip()[:260] for l in rc.stdout.splitlines() if l.strip().startswith("clause=")][:2]
                meta["checks"][c] = {"exit": rc.returncode, "drift": drift, "s": round(time.time() - t0), "first": viol,
                                     "stderr": rc.stderr[-300:] if rc.returncode == 2 else ""}
                flag = "ok" if rc.returncode == 0 else "ALARM rc=%d" % rc.returncode
                if rc.returncode != 0:
                    alarms += 1
                print("REFACTOR %-16s %s -> %s drift=%d (%ds) %s" % ("%s_%s%d" % (area, tag, i), c, flag, drift, time.time() - t0,
                                                                    " | ".join(viol)[:300] + meta["checks"][c]["stderr"][:200]))
                sys.stdout.flush()
        if old_meta is not None:
            # a re-run of some checks after the machinery (or /repo) changed: the first verdicts stay on record
            for c, v in meta["checks"].items():
                if c in old_meta.get("checks", {}) and old_meta["checks"][c].get("exit") != v["exit"]:
                    old_meta.setdefault("superseded", {})[c] = old_meta["checks"][c]
                old_meta.setdefault("checks", {})[c] = v
            old_meta["repo_head_of_last_run"] = sh("git -C %s rev-parse --short HEAD" % REPO).stdout.strip()
            meta = old_meta
        with open(os.path.join(dst, "meta.json"), "w") as f:
            json.dump(meta, f, indent=1)
        shutil.rmtree(base, ignore_errors=True)
    print("refactorings of %s: %d alarms" % (area, alarms))


if __name__ == "__main__":
    main()
