#!/bin/bash
# usage: tools/try_patch.sh <patch.diff> <CHECK> [tier]   - apply a patch to a scratch copy of /repo/src and run one check on it
set -u
p=$(readlink -f "$1"); c=$2; tier=${3:-quick}
base=/dev/shm/cvtry_$$_$c
rm -rf $base; mkdir -p $base; cp -a /repo/src $base/src; find $base -name __pycache__ -type d -prune -exec rm -rf {} +
(cd $base && patch -p1 -s --no-backup-if-mismatch < "$p") || { echo "PATCH DOES NOT APPLY"; rm -rf $base; exit 3; }
cd /verif && VERIF_SUBJECT_SRC=$base/src timeout 3000 ./check $c --tier $tier 2>&1 | grep -E "^$c|VIOLATION|clause=|MACHINERY|DRIFT|KNOWN" | cut -c1-420 | head -${HEADN:-8}
rc=${PIPESTATUS[0]}
rm -rf $base
exit $rc
