#!/venv/bin/python
"""Intake of an independently written breaking change (written by a sub-agent in its own scratch worktree).

usage: tools/seed_intake.py <PROP> [--worktree /tmp/wt/<PROP>] [--checks C01,C03] [--name suffix]

1. copies patch.diff / demo.py / README.md to /verif/seeded/<PROP>[-suffix]/
2. confirms, in a fresh scratch worktree of /repo HEAD: the patch applies, the 37 baseline tests pass with it, the
   demonstration exits 1 with the patch and 0 without
3. applies the patch to /repo, runs the quick check(s), restores /repo (git checkout -- .)
4. writes meta.json
"""
import json
import os
import shutil
import subprocess
import sys
import time

REPO = "/repo"
VERIF = "/verif"
TESTS = ("tests/config_file_test.py tests/run_options_test.py tests/task_identifier_test.py tests/time_utils_test.py "
         "tests/validation_test.py tests/version_index_migration_test.py tests/git_test.py::test_detect_empty_repo "
         "tests/git_test.py::test_detect_no_git tests/lib_path_test.py::test_get_deps_paths_non_cond "
         "tests/lib_path_test.py::test_get_output_path_non_cond tests/lib_path_test.py::test_in_output_dir_non_cond")


def sh(cmd, **kw):
    return subprocess.run(cmd, shell=True, capture_output=True, text=True, **kw)


def main():
    prop = sys.argv[1]
    wt = "/tmp/wt/%s" % prop
    checks = [prop]
    suffix = ""
    for a in sys.argv[2:]:
        if a.startswith("--worktree="):
            wt = a.split("=", 1)[1]
        elif a.startswith("--checks="):
            checks = a.split("=", 1)[1].split(",")
        elif a.startswith("--name="):
            suffix = "-" + a.split("=", 1)[1]
    src = os.path.join(wt, "_seed")
    dst = os.path.join(VERIF, "seeded", prop + suffix)
    os.makedirs(dst, exist_ok=True)
    for f in ("patch.diff", "demo.py", "README.md"):
        if os.path.exists(os.path.join(src, f)):
            shutil.copy(os.path.join(src, f), os.path.join(dst, f))
    patch = os.path.join(dst, "patch.diff")
    assert os.path.getsize(patch) > 0, "empty patch"
    assert sh("git -C %s status --porcelain" % REPO).stdout.strip() == "", "/repo is dirty"
    head = sh("git -C %s rev-parse --short HEAD" % REPO).stdout.strip()
    meta = {"property": prop, "repo_head": head, "ran": []}
    scratch = "/tmp/wt/confirm_%s%s" % (prop, suffix)
    sh("git -C %s worktree remove --force %s" % (REPO, scratch))
    r = sh("git -C %s worktree add -q --detach %s HEAD" % (REPO, scratch))
    assert r.returncode == 0, r.stderr
    try:
        demo = os.path.join(dst, "demo.py")
        t0 = time.time()
        r0 = sh("timeout 300 /venv/bin/python %s %s/src" % (demo, scratch))
        meta["demo_without_patch"] = {"exit": r0.returncode, "s": round(time.time() - t0, 1)}
        ra = sh("git -C %s apply %s" % (scratch, patch))
        meta["patch_applies"] = ra.returncode == 0
        if ra.returncode != 0:
            meta["apply_error"] = ra.stderr[-500:]
        rt = sh("cd %s && PYTHONPATH=%s/src /venv/bin/python -m pytest -q -p no:cacheprovider --timeout=900 %s" % (scratch, scratch, TESTS))
        meta["baseline_tests_with_patch"] = rt.stdout.strip().splitlines()[-1] if rt.stdout.strip() else rt.stderr[-200:]
        t0 = time.time()
        r1 = sh("timeout 300 /venv/bin/python %s %s/src" % (demo, scratch))
        meta["demo_with_patch"] = {"exit": r1.returncode, "s": round(time.time() - t0, 1), "tail": (r1.stdout + r1.stderr)[-400:]}
        meta["ran"] += ["demo.py <clean worktree>/src -> %d" % r0.returncode, "git apply patch.diff; 37 baseline tests: %s" % meta["baseline_tests_with_patch"],
                        "demo.py <patched worktree>/src -> %d" % r1.returncode]
        if "--via-copy" in sys.argv and meta.get("patch_applies"):
            meta["checks"] = {}
            for c in checks:
                t0 = time.time()
                rc = sh("cd %s && VERIF_SUBJECT_SRC=%s/src timeout 1800 ./check %s --tier quick" % (VERIF, scratch, c))
                lines = [l for l in rc.stdout.splitlines() if l.startswith("VIOLATION") or l.strip().startswith("clause=")]
                meta["checks"][c] = {"exit": rc.returncode, "s": round(time.time() - t0, 1),
                                     "caught": rc.returncode == 1 and any("VIOLATION property=%s" % c in l for l in lines),
                                     "first": [l.strip()[:300] for l in lines[:2]],
                                     "stderr": rc.stderr[-300:] if rc.returncode == 2 else ""}
                meta["ran"].append("VERIF_SUBJECT_SRC=<patched scratch worktree>/src ./check %s --tier quick -> exit %d" % (c, rc.returncode))
    finally:
        sh("git -C %s worktree remove --force %s" % (REPO, scratch))
    meta["confirmed"] = bool(meta.get("patch_applies") and meta["demo_without_patch"]["exit"] == 0 and meta["demo_with_patch"]["exit"] == 1
                             and " passed" in meta["baseline_tests_with_patch"] and "failed" not in meta["baseline_tests_with_patch"])
    # our checks against the change (applied to /repo itself, undone straight afterwards)
    if "--via-copy" not in sys.argv:
        meta["checks"] = {}
    if meta.get("patch_applies") and "--via-copy" not in sys.argv:
        ra = sh("git -C %s apply %s" % (REPO, patch))
        try:
            if ra.returncode == 0:
                for c in checks:
                    t0 = time.time()
                    rc = sh("cd %s && timeout 1500 ./check %s --tier quick" % (VERIF, c))
                    lines = [l for l in rc.stdout.splitlines() if l.startswith("VIOLATION") or l.strip().startswith("clause=")]
                    meta["checks"][c] = {"exit": rc.returncode, "s": round(time.time() - t0, 1),
                                         "caught": rc.returncode == 1 and any("VIOLATION property=%s" % c in l for l in lines),
                                         "first": [l.strip()[:300] for l in lines[:2]],
                                         "stderr": rc.stderr[-300:] if rc.returncode == 2 else ""}
                    meta["ran"].append("git -C /repo apply patch.diff; ./check %s --tier quick -> exit %d; git -C /repo checkout -- ." % (c, rc.returncode))
        finally:
            sh("git -C %s checkout -- ." % REPO)
            sh("git -C %s clean -fdq -- src" % REPO)
    readme = os.path.join(dst, "README.md")
    meta["needs_to_manifest"] = open(readme).read()[:1500] if os.path.exists(readme) else ""
    with open(os.path.join(dst, "meta.json"), "w") as f:
        json.dump(meta, f, indent=1)
    print(json.dumps({k: meta[k] for k in ("property", "confirmed", "patch_applies", "demo_without_patch", "demo_with_patch",
                                           "baseline_tests_with_patch", "checks")}, indent=1)[:2500])
    assert sh("git -C %s status --porcelain" % REPO).stdout.strip() == "", "/repo left dirty!"


if __name__ == "__main__":
    main()
