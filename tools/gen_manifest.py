#!/venv/bin/python
"""Generates /verif/MANIFEST.json from the table below (single source of truth for the interface file)."""
import json
import os

HERE = os.path.dirname(os.path.dirname(os.path.abspath(__file__)))
PROPS = [json.loads(l)["id"] for l in open(os.path.join(HERE, "properties.jsonl"))]

RUN_NOTE = ("trusted: the FakeKernel model of fork/waitpid/SIGCHLD/killpg (harness/fakekernel.py), TLC, and that signal "
            "handlers only matter at the interposed calls; exhaustive only for <= 3 tasks on the model side")

STORE_NOTE = ("trusted: the projection of cond-out to the abstract store state (harness/clirunner.py project_store), sqlite commit "
              "atomicity, TLC; on-disk state changes only at effectful C calls of the main thread")

CHECKS = {
    "C01": ("model_checking", "Executor.tla+PlannerCore.tla model-checked (all ordered-deps graphs on 3 tasks x kinds x par x jobs x "
            "stop x exit codes x interleavings) with the RunObs monitor; real `cond run` under an interposed process layer on "
            "random graphs x schedules, every trace judged by TLC against RunObs clauses StartAfterDepsExit0 / "
            "NoOverlapWithDependency", RUN_NOTE, "TLC model checking + TLC trace judging of interposed real executions", "6 C01"),
    "C02": ("model_checking", "Planner.tla model-checked on every ordered-deps DAG (3 tasks; 4 in thorough) x kinds x cache states x "
            "{default, --again, --at-least}; TLC exports every instance with its expected needed set / cached frontier / plan; the real "
            "`cond run` is executed on the instances and judged by TLC (RunObs), divergence from the predicted plan is drift",
            RUN_NOTE, "TLC model checking + spec-to-code replay of TLC-enumerated instances", "6 C02"),
    "C03": ("model_checking", "as C01, with failing subsets (exit code, signal, launch failure) and --stop-early; clauses "
            "SkipIffDependsOnFailure, SkippedNeverStarted, ExitZeroIffAllSucceeded, FailedListExact, SkippedListExact, "
            "IndependentsRan, NothingAfterFirstFailure, StopEarlyKilledRunning", RUN_NOTE,
            "TLC model checking + TLC trace judging of interposed real executions", "6 C03"),
    "C04": ("model_checking", "as C01, clauses AtMostJobs, SequentialAlone, DistinctSlots, SlotRange, SlotIffParallel evaluated on "
            "the kernel's view of running processes; model invariant SlotStack", RUN_NOTE,
            "TLC model checking + TLC trace judging of interposed real executions", "6 C04"),
    "C05": ("model_checking", "RelevanceCore.tla: documented rule vs the code's loops, equal on every commit DAG with <= 4 commits x "
            "HEAD x row sets x flags (TLC); the exported instances are built as real git repositories and `cond where`, `cond run` and "
            "a dependent's COND_DEPS are observed and judged by TLC (Relevance_Trace.tla)",
            "trusted: git itself; the FakeKernel for the spawn/cached observation; universes limited to 3 commits on the conformance side",
            "TLC model checking + conformance of TLC-exported instances on real git", "6 C05"),
    "C06": ("fault_enumeration", "every run / restore / archive / gc of a set of histories is killed before each effectful C call; the "
            "surviving disk is projected and judged by TLC against StoreObs (IndexImpliesData, RowsOnlyForExit0, SuccessRecorded, "
            "RowCarriesHeadAndDirty); Store.tla with Crash at every step model-checked against the same clauses", STORE_NOTE,
            "crash-point enumeration judged by TLC + TLC model checking of Store.tla", "6 C06"),
    "C07": ("model_checking", "Planner.tla InvSnapshotExact (model-checked); spawn argv/env/cwd recorded at fork_exec on random graphs "
            "with args/options/nesting/cache states and judged by TLC (RunObs Env* clauses); conductor.lib evaluated inside real tasks "
            "(LibAgrees)", RUN_NOTE + "; args/options restricted to shell-inert tokens",
            "TLC model checking + TLC trace judging of interposed and real executions", "6 C07"),
    "C08": ("model_checking", "Store.tla (clock stutter / step back, failed and crashed runs, foreign archives) model-checked; real "
            "histories with a fake clock judged by TLC against StoreObs (IdAboveRecorded, DirFresh, DirEmptyAtStart, IdUnique, "
            "RecordedImmutable)", STORE_NOTE, "TLC model checking + TLC judging of real command histories", "6 C08"),
    "C09": ("model_checking", "Executor.tla with the kernel (zombies, coalesced SIGCHLD, optional second reaper) checked for "
            "deadlock freedom, termination under weak fairness and the accounting clauses; real Popen lifecycle + SigchldHelper "
            "under the FakeKernel with schedules that let CPython's own waitpid(pid) polls race the handler, plus stateless DFS "
            "over all schedules of tiny scenarios", RUN_NOTE,
            "TLC model checking (safety + liveness) + TLC trace judging of interposed real executions", "6 C09"),
    "C10": ("exploration", "Tee.tla (pipe / tee thread / join / record protocol) model-checked; real executions emitting "
            "self-delimiting blocks on both descriptors, logs and forwarded streams parsed back to token sequences and judged by TLC; "
            "args.json / options.json presence and decoded equality", "byte-level fidelity only on the generated vectors; NaN excluded",
            "TLC model checking of the protocol + TLC judging of token sequences from real executions", "6 C10"),
    "C11": ("model_checking", "StoreObs Selected/ClosureIds/ArchiveClauses/RoundTripClauses; Store.tla archive+restore model-checked; "
            "real archive (every flag combination) -> restore into a fresh copy -> compare, judged by TLC", STORE_NOTE,
            "TLC model checking + TLC judging of real command histories", "6 C11"),
    "C12": ("fault_enumeration", "real archives damaged in every listed way, restored into several prior states, with the restore killed "
            "before every effectful C call and after a previously killed restore; judged by TLC (StoreObs restore clauses); Store.tla "
            "restore steps with Crash model-checked", STORE_NOTE + "; killed after the commit point counts as completed",
            "fault/crash enumeration judged by TLC + TLC model checking of Store.tla", "6 C12"),
    "C13": ("model_checking", "Store.tla gc model-checked; real trees reached by real histories plus manual additions (symlinks, twins, "
            "look-alikes), gc --dry-run / -v / plain judged by TLC (StoreObs Gc* clauses)", STORE_NOTE,
            "TLC model checking + TLC judging of real command histories", "6 C13"),
    "C14": ("model_checking", "Loader.tla: declarative verdict sets vs the two DFS algorithms, for every digraph over 3 defined + 1 "
            "undefined task with every ordered dependency list; the same instances run through the real cond run --check / cond run / "
            "validate_all_loaded_tasks and judged by TLC (Loader_Trace.tla)", "exhaustive for 3 tasks only; whole-project validation "
            "called through TaskIndex", "TLC model checking + conformance of TLC-exported instances", "6 C14"),
    "C15": ("exploration", "CondSchema.tla acceptance over abstract definitions (43 440), include() and Python-failure classes; each "
            "concretised into COND source and run through the real CLI; TLC judges acceptance, clean diagnostics, nothing executed",
            "representative concrete values per class; names that cannot be targeted are checked through a sibling task",
            "specification-derived vectors judged by TLC", "6 C15"),
    "C16": ("fault_enumeration", "SIGINT/SIGTERM handler invoked at every executed line (quick: sampled) of Conductor's code and after "
            "each fork_exec under the FakeKernel; judged by TLC (RunObs AllLiveKilled, AbortedNotInternal, RowsOnlyForExit0); three "
            "narrow windows are known findings", RUN_NOTE + "; delivery points = executed lines of Conductor's own code",
            "abort-point enumeration judged by TLC", "6 C16"),
    "C17": ("exploration", "every sub-command x flag combination executed on identical copies from 6 working directories + a nested "
            "project; every (root, cwd) pair judged by TLC (StoreObs.CwdClauses / NestedClauses)", STORE_NOTE,
            "differential executions judged by TLC", "6 C17"),
    "C18": ("exploration", "combine over every dependency kind in nested packages across runs; links compared with the COND_DEPS a "
            "sibling task received in the same invocation, conflicts planted; judged by TLC (StoreObs.CombineClauses)", STORE_NOTE,
            "real command histories judged by TLC", "6 C18"),
    "C19": ("translation_validation", "Schema.tla Expand/Rejected; group form vs explicit form generated from the specification's "
            "expansion: equal materialised graphs, equal executions, and the group-form execution judged by TLC (RunObs) against the "
            "contract of the explicit task list", RUN_NOTE, "translation validation against the specification's expansion", "6 C19"),
    "C20": ("model_checking", "Identifier.tla: generator = recogniser, parse/print round trip, output-directory injectivity (TLC, all "
            "strings <= 5); the real code run on every string up to length 5 (6 in thorough) over a 12-character alphabet and the "
            "accepted sets / parsed table compared by TLC", "alphabet of class representatives", 
            "TLC evaluation of grammar theorems + exhaustive conformance of the recognisers", "6 C20"),
}

NA = {}


def main():
    checks = []
    for p in PROPS:
        if p not in CHECKS:
            continue
        cat, text, note, tech, ref = CHECKS[p]
        checks.append({
            "property_id": p,
            "quick_cmd": "./check %s --tier quick" % p,
            "thorough_cmd": "./check %s --tier thorough" % p,
            "evidence_file": "evidence/%s.json" % p,
            "replay_cmd_template": "./check %s --replay {path}" % p,
            "engine": "conductor-tla",
            "level_claimed": {"category": cat, "text": text, "design_ref": "DESIGN.md section " + ref},
            "level_note": note,
            "technique": tech,
        })
    na = [{"property_id": p, "reason": NA.get(p, "check not built yet (work in progress; see DESIGN.md section 6)")}
          for p in PROPS if p not in CHECKS]
    man = {
        "version": 1,
        "setup_cmd": "/venv/bin/python -m compileall -q harness tools && /venv/bin/python -c 'import conductor' && (cd specs && tla-sany RunObs_Trace.tla >/dev/null && tla-sany StoreObs_Trace.tla >/dev/null)",
        "hooks": {
            "guard": "CONDUCTOR_VERIF",
            "enable": "no hooks: every observation is taken by interposition inside the harness process (DESIGN.md section 8)",
            "baseline_off_cmd": "cd /repo && /venv/bin/python -m pytest -ra -q -p no:cacheprovider --timeout=900 --continue-on-collection-errors",
            "source_commits": [],
            "add_only": True,
        },
        "engines": [{"name": "conductor-tla", "path": "check", "serves_properties": sorted(CHECKS),
                     "kind_free_text": "TLA+ specifications (specs/) model-checked by TLC; Python harnesses (harness/) that run the "
                                       "real conductor code under interposition / fault injection and hand the recorded traces and "
                                       "states back to TLC"}],
        "checks": checks,
        "not_applicable": na,
        "notes": "fix: commits in /repo are listed in known_findings.json; see DESIGN.md",
    }
    with open(os.path.join(HERE, "MANIFEST.json"), "w") as f:
        json.dump(man, f, indent=1)
    print("MANIFEST.json: %d checks, %d not applicable" % (len(checks), len(na)))


if __name__ == "__main__":
    main()
