#!/venv/bin/python
"""Generates /verif/MANIFEST.json from the table below (single source of truth for the interface file)."""
import json
import os

HERE = os.path.dirname(os.path.dirname(os.path.abspath(__file__)))
PROPS = [json.loads(l)["id"] for l in open(os.path.join(HERE, "properties.jsonl"))]

RUN_NOTE = ("trusted: the FakeKernel model of fork/waitpid/SIGCHLD/killpg (harness/fakekernel.py), TLC, and that signal "
            "handlers only matter at the interposed calls; exhaustive only for <= 3 tasks on the model side")

CHECKS = {
    "C01": ("model_checking", "Executor.tla+PlannerCore.tla model-checked (all ordered-deps graphs on 3 tasks x kinds x par x jobs x "
            "stop x exit codes x interleavings) with the RunObs monitor; real `cond run` under an interposed process layer on "
            "random graphs x schedules, every trace judged by TLC against RunObs clauses StartAfterDepsExit0 / "
            "NoOverlapWithDependency", RUN_NOTE, "TLC model checking + TLC trace judging of interposed real executions", "6 C01"),
    "C02": ("model_checking", "Planner.tla model-checked on every ordered-deps DAG (3 tasks; 4 in thorough) x kinds x cache states x "
            "{default, --again, --at-least}; TLC exports every instance with its expected needed set / cached frontier / plan; the real "
            "`cond run` is executed on the instances and judged by TLC (RunObs), divergence from the predicted plan is drift",
            RUN_NOTE, "TLC model checking + spec-to-code replay of TLC-enumerated instances", "6 C02"),
    "C03": ("model_checking", "as C01, with failing subsets (exit code, signal, launch failure) and --stop-early; clauses "
            "SkipIffDependsOnFailure, SkippedNeverStarted, ExitZeroIffAllSucceeded, FailedListExact, SkippedListExact, "
            "IndependentsRan, NothingAfterFirstFailure, StopEarlyKilledRunning", RUN_NOTE,
            "TLC model checking + TLC trace judging of interposed real executions", "6 C03"),
    "C04": ("model_checking", "as C01, clauses AtMostJobs, SequentialAlone, DistinctSlots, SlotRange, SlotIffParallel evaluated on "
            "the kernel's view of running processes; model invariant SlotStack", RUN_NOTE,
            "TLC model checking + TLC trace judging of interposed real executions", "6 C04"),
    "C09": ("model_checking", "Executor.tla with the kernel (zombies, coalesced SIGCHLD, optional second reaper) checked for "
            "deadlock freedom, termination under weak fairness and the accounting clauses; real Popen lifecycle + SigchldHelper "
            "under the FakeKernel with schedules that let CPython's own waitpid(pid) polls race the handler, plus stateless DFS "
            "over all schedules of tiny scenarios", RUN_NOTE,
            "TLC model checking (safety + liveness) + TLC trace judging of interposed real executions", "6 C09"),
}

NA = {}


def main():
    checks = []
    for p in PROPS:
        if p not in CHECKS:
            continue
        cat, text, note, tech, ref = CHECKS[p]
        checks.append({
            "property_id": p,
            "quick_cmd": "./check %s --tier quick" % p,
            "thorough_cmd": "./check %s --tier thorough" % p,
            "evidence_file": "evidence/%s.json" % p,
            "replay_cmd_template": "./check %s --replay {path}" % p,
            "engine": "conductor-tla",
            "level_claimed": {"category": cat, "text": text, "design_ref": "DESIGN.md section " + ref},
            "level_note": note,
            "technique": tech,
        })
    na = [{"property_id": p, "reason": NA.get(p, "check not built yet (work in progress; see DESIGN.md section 6)")}
          for p in PROPS if p not in CHECKS]
    man = {
        "version": 1,
        "setup_cmd": "/venv/bin/python -m compileall -q harness tools && /venv/bin/python -c 'import conductor' && tla-sany specs/RunObs_Trace.tla >/dev/null",
        "hooks": {
            "guard": "CONDUCTOR_VERIF",
            "enable": "no hooks: every observation is taken by interposition inside the harness process (DESIGN.md section 8)",
            "baseline_off_cmd": "cd /repo && /venv/bin/python -m pytest -ra -q -p no:cacheprovider --timeout=900 --continue-on-collection-errors",
            "source_commits": [],
            "add_only": True,
        },
        "engines": [{"name": "conductor-tla", "path": "check", "serves_properties": sorted(CHECKS),
                     "kind_free_text": "TLA+ specifications (specs/) model-checked by TLC; Python harnesses (harness/) that run the "
                                       "real conductor code under interposition / fault injection and hand the recorded traces and "
                                       "states back to TLC"}],
        "checks": checks,
        "not_applicable": na,
        "notes": "fix: commits in /repo are listed in known_findings.json; see DESIGN.md",
    }
    with open(os.path.join(HERE, "MANIFEST.json"), "w") as f:
        json.dump(man, f, indent=1)
    print("MANIFEST.json: %d checks, %d not applicable" % (len(checks), len(na)))


if __name__ == "__main__":
    main()
